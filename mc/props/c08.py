"""C08 — run-space expansion yields exactly the documented ordered list of runs; the cap is prompt.

Exhaustive enumeration of run_space specifications over a block-template menu, judged by the lazy
reference expander mc.ref.runspace; cap promptness judged by tracemalloc peak (deterministic) and
by a child process under RLIMIT_AS for astronomically large products.
"""
from __future__ import annotations

import itertools
import json
import os
import resource
import subprocess
import sys
import tracemalloc
from typing import Any, Dict, List, Optional, Tuple

import yaml

from mc import cli, core, harness
from mc.core import Result, Violation
from mc.ref import runspace as ref

# ---- source tables (as the documentation defines their columnar content) ------------------------------------
TABLE_XY = {"x": [1, 2], "y": [1.5, 2.5]}
TABLE_XYZ3 = {"x": [1, 2, 3], "y": [0.5, 1.5, 2.5], "z": ["p", "q", "r"]}
TABLE_SCALAR = {"x": [1, 2], "w": [7]}  # json/yaml mapping with a scalar -> wrapped into a 1-list


def write_table(d: str, name: str, fmt: str, table: Dict[str, List[Any]], shape: str = "rows") -> str:
    path = os.path.join(d, name)
    keys = list(table)
    n = max(len(v) for v in table.values())
    rows = [{k: table[k][i] for k in keys if i < len(table[k])} for i in range(n)]
    if fmt == "csv":
        with open(path, "w") as f:
            f.write(", ".join(keys) + "\n")  # header with blanks: stripped by the loader
            for r in rows:
                f.write(",".join("true" if r[k] is True else str(r[k]) for k in keys) + "\n")
    elif fmt == "ndjson":
        with open(path, "w") as f:
            for r in rows:
                f.write(json.dumps(r) + "\n\n")
    elif fmt == "json":
        with open(path, "w") as f:
            if shape == "rows":
                json.dump(rows, f)
            else:
                json.dump({k: (v[0] if len(v) == 1 else v) for k, v in table.items()}, f)
    elif fmt == "yaml":
        with open(path, "w") as f:
            if shape == "rows":
                yaml.safe_dump(rows, f)
            else:
                yaml.safe_dump({k: (v[0] if len(v) == 1 else v) for k, v in table.items()}, f)
    return name


FILES = {
    "xy.csv": ("csv", TABLE_XY, "rows"), "xyz.csv": ("csv", TABLE_XYZ3, "rows"),
    "xy.json": ("json", TABLE_XY, "rows"), "cols.json": ("json", TABLE_SCALAR, "cols"),
    "xy.yaml": ("yaml", TABLE_XY, "rows"), "cols.yaml": ("yaml", TABLE_SCALAR, "cols"),
    "xy.ndjson": ("ndjson", TABLE_XY, "rows"),
}


def tables() -> Dict[str, Optional[Dict[str, List[Any]]]]:
    t: Dict[str, Optional[Dict[str, List[Any]]]] = {name: tab for name, (_, tab, _) in FILES.items()}
    t["missing.csv"] = None
    # path spellings: what a relative source path names is what the operating system opens for it, seen from the base directory
    # ("lnk" is a symbolic link to deep/er, so lnk/../t.csv is deep/t.csv, not the decoy ./t.csv)
    t["./sub/../xy.csv"] = TABLE_XY
    t["lnk/../t.csv"] = TABLE_XYZ3
    return t


def write_all(d: str):
    for name, (fmt, tab, shape) in FILES.items():
        write_table(d, name, fmt, tab, shape)
    os.makedirs(os.path.join(d, "sub"), exist_ok=True)
    os.makedirs(os.path.join(d, "deep", "er"), exist_ok=True)
    if not os.path.lexists(os.path.join(d, "lnk")):
        os.symlink(os.path.join("deep", "er"), os.path.join(d, "lnk"))
    write_table(os.path.join(d, "deep"), "t.csv", "csv", TABLE_XYZ3, "rows")
    write_table(d, "t.csv", "csv", TABLE_XY, "rows")  # the decoy at the lexically collapsed location
    # the process works somewhere else (relative source paths are relative to the base directory handed to the expander, not to the
    # working directory), and that place holds namesakes with other content
    alt = os.path.join(d, "elsewhere")
    os.makedirs(alt, exist_ok=True)
    for name, (fmt, tab, shape) in FILES.items():
        write_table(alt, name, fmt, {"x": [9, 8, 7], "y": [9.5, 8.5, 7.5], "w": [0, 0, 0]} if tab is not TABLE_XYZ3 else TABLE_XY, "rows")
    os.chdir(alt)


CTX1 = [
    {"a": [1, 2]}, {"a": [1, 2], "b": [10, 20]}, {"b": [10, 20], "a": [1, 2]}, {"a": [1, 2, 3], "b": [10, 20]},
    {"a": []}, {"a": [], "b": [10]}, {"c": [7]}, {"c": [5, 6, 7], "a": [1, 2]}, {},
    {"a": [0, None], "b": [False, ""]},   # falsy / null values are values like any other
    {"a": [[1, 2], [3]], "b": [{"k": 1}, None]},            # values that are themselves lists / mappings
    {"a": [1, 1.0, True], "c": ["1", "x=y", "käse ✓"]},      # == but different scalars; strings that look like numbers / syntax
]
SRC1_QUICK = [
    None,
    {"format": "csv", "path": "xy.csv"},
    {"format": "csv", "path": "xy.csv", "select": ["y"]},
    {"format": "csv", "path": "xy.csv", "select": []},                                            # the empty subset of columns: the source contributes nothing
    {"format": "json", "path": "xy.json", "select": [], "mode": "combinatorial"},
    {"format": "csv", "path": "xy.csv", "select": ["x", "nope"]},
    {"format": "csv", "path": "xy.csv", "rename": {"x": "a"}},
    {"format": "csv", "path": "xy.csv", "rename": {"x": "y"}},
    {"format": "csv", "path": "xy.csv", "mode": "combinatorial"},
    {"format": "csv", "path": "missing.csv"},
    {"format": "csv", "path": "xyz.csv", "select": ["z", "x"], "rename": {"z": "k"}},
    {"format": "csv", "path": "xyz.csv", "mode": "combinatorial", "select": ["y", "x"]},          # select order != sorted order
    {"format": "csv", "path": "xy.csv", "mode": "combinatorial", "rename": {"x": "z"}},           # rename changes the alphabetical rank
    {"format": "csv", "path": "lnk/../t.csv", "select": ["z", "x"]},                              # '..' after a symbolic link
    {"format": "csv", "path": "./sub/../xy.csv"},
]
SRC1_MORE = [
    {"format": "json", "path": "xy.json"}, {"format": "json", "path": "cols.json"},
    {"format": "json", "path": "cols.json", "mode": "combinatorial"},
    {"format": "yaml", "path": "xy.yaml", "rename": {"y": "b"}}, {"format": "yaml", "path": "cols.yaml", "mode": "combinatorial"},
    {"format": "ndjson", "path": "xy.ndjson"}, {"format": "ndjson", "path": "xy.ndjson", "select": ["x"], "mode": "combinatorial"},
    {"format": "json", "path": "xy.json", "mode": "combinatorial", "select": ["y", "x"], "rename": {"y": "a2"}},
]
BLOCK2 = [
    None,
    {"mode": "by_position", "context": {"d": [100, 200]}},
    {"mode": "combinatorial", "context": {"d": [100, 200, 300]}},
    {"mode": "by_position", "context": {"a": [9, 8]}},  # duplicate across blocks (when block 1 has a)
    {"mode": "combinatorial", "context": {"d": []}},
    {"mode": "by_position", "context": {"e": [0, 1], "d": [100, 200]}},
    {"mode": "by_position", "source": {"format": "csv", "path": "xy.csv", "rename": {"x": "d", "y": "e"}}},
    {"mode": "combinatorial", "context": {"d": [100, 200]}, "source": {"format": "json", "path": "cols.json", "select": ["w"]}},
]
BLOCK3 = [None, {"mode": "combinatorial", "context": {"g": [True, False]}}, {"mode": "by_position", "context": {"g": ["s"], "h": [None]}}]


def specs(tier: str) -> List[dict]:
    out = []
    srcs = SRC1_QUICK + (SRC1_MORE if tier == "thorough" else SRC1_MORE[:3])
    b3s = BLOCK3 if tier == "thorough" else BLOCK3[:1]
    for ctx, src, mode1, b2, b3, combine in itertools.product(CTX1, srcs, ("by_position", "combinatorial"), BLOCK2, b3s,
                                                              ("combinatorial", "by_position")):
        if not ctx and src is None:
            continue  # key-less block: not defined by the documentation
        b1: Dict[str, Any] = {"mode": mode1}
        if ctx:
            b1["context"] = ctx
        if src:
            b1["source"] = src
        blocks = [b for b in (b1, b2, b3) if b is not None]
        out.append({"combine": combine, "blocks": blocks})
    out.append({"combine": "combinatorial", "blocks": []})
    out.append({"combine": "by_position", "blocks": []})
    return out


def real_expand(rs: dict, cwd: str):
    """Loader + expand_run_space.  Returns ("reject", cls) | ("cap", actual, max) | ("ok", runs, meta)."""
    from semantiva.configurations.load_pipeline_from_yaml import _parse_run_space_block
    from semantiva.exceptions.pipeline_exceptions import PipelineConfigurationError, RunSpaceMaxRunsExceededError
    from semantiva.execution.run_space import expand_run_space

    block = yaml.safe_load(yaml.safe_dump(rs, sort_keys=False))
    try:
        spec = _parse_run_space_block(block)
    except ValueError as e:
        return ("reject", "loader:" + type(e).__name__)
    try:
        runs, meta = expand_run_space(spec, cwd=cwd)
    except PipelineConfigurationError as e:
        return ("reject", type(e).__name__)
    except RunSpaceMaxRunsExceededError as e:
        return ("cap", e.actual_runs, e.max_runs)
    except Exception as e:  # anything else is not one of the documented rejections
        return ("foreign-exception", f"{type(e).__name__}: {e}")
    return ("ok", runs, meta)


def judge(rs: dict, cwd: str, tabs) -> Optional[Tuple[str, str]]:
    exp = ref.plan(rs, tabs)
    got = real_expand(rs, cwd)
    if got[0] == "foreign-exception":
        return (f"undocumented-exception|expected-{exp[0]}", f"documentation prescribes {exp[0]} {str(exp[1:3])[:80]}; expand_run_space raised {got[1][:160]}")
    if exp[0] == "reject":
        if got[0] != "reject":
            return ("invalid-spec-accepted", f"documentation rejects ({exp[1]}); implementation returned {got[0]} {str(got[1:])[:200]}")
        return None
    if exp[0] == "cap":
        if got[0] != "cap":
            return ("cap-not-enforced", f"expansion of {exp[1]} runs exceeds max_runs={exp[2]} but implementation returned {got[0]} {str(got[1:])[:120]}")
        if (got[1], got[2]) != (exp[1], exp[2]):
            return ("cap-error-wrong-numbers", f"max-runs error reports {got[1:]} expected {exp[1:]}")
        return None
    if got[0] != "ok":
        return ("valid-spec-rejected", f"documentation accepts ({exp[1]} runs); implementation: {got}")
    want = list(exp[2]())
    runs = got[1]
    if runs != want or json.dumps(runs, sort_keys=True, default=repr) != json.dumps(want, sort_keys=True, default=repr):  # type-strict: 1, 1.0 and True are different values
        return ("wrong-run-list", f"runs {str(runs)[:300]} != documented {str(want)[:300]}")
    union = set()
    for b in rs.get("blocks", []):
        pass
    if want:
        keys = set(want[0])
        for r in runs:
            if set(r) != keys:
                return ("run-missing-keys", f"run {r} does not carry the union of keys {sorted(keys)}")
    # key order inside inline-only blocks: sorted within the block, blocks in declaration order
    if all("source" not in b for b in rs.get("blocks", [])) and runs:
        order = [k for b in rs["blocks"] for k in sorted(b.get("context", {}))]
        if list(runs[0].keys()) != order:
            return ("wrong-key-order", f"run key order {list(runs[0].keys())} != documented {order}")
    if got[2].get("expanded_runs") != len(want):
        return ("wrong-meta-count", f"meta.expanded_runs={got[2].get('expanded_runs')} for {len(want)} runs")
    return None


def caps_for(n: int) -> List[int]:
    return sorted({0, 1, max(0, n - 1), n, n + 1, 1000})


def _worker(chunk):
    d = harness.enter_scratch()
    harness.clear_dir(d)
    write_all(d)
    tabs = tables()
    out = {"n": 0, "outcomes": {}, "viol": [], "sizes": set()}
    for rs in chunk:
        base = ref.plan({**rs, "max_runs": 10 ** 9}, tabs)
        n = base[1] if base[0] == "ok" else 0
        caps = caps_for(n) if base[0] == "ok" else [1000]
        if not rs.get("blocks"):
            caps = [c for c in caps if c >= 1]  # "no run space" = one default run; a cap of 0 there is not a documented case
        for cap in caps:
            spec = {**rs, "max_runs": cap}
            out["n"] += 1
            exp = ref.plan(spec, tabs)
            out["outcomes"][exp[0]] = out["outcomes"].get(exp[0], 0) + 1
            if exp[0] == "ok":
                out["sizes"].add(core.sha(list(exp[2]())))
            bad = judge(spec, d, tabs)
            if bad:
                out["viol"].append((bad[0], bad[1], spec))
    out["sizes"] = list(out["sizes"])
    return out


# ---- cap promptness ----------------------------------------------------------------------------------------------

def big_specs() -> List[Tuple[str, dict, int]]:
    """(label, spec, expected actual runs)"""
    out = []
    vals = list(range(100))
    out.append(("single-block-1e4", {"max_runs": 10, "blocks": [{"mode": "combinatorial", "context": {"a": vals, "b": vals}}]}, 10 ** 4))
    out.append(("single-block-1e6", {"max_runs": 1000, "blocks": [{"mode": "combinatorial", "context": {"a": vals, "b": vals, "c": vals}}]}, 10 ** 6))
    out.append(("across-blocks-1e6", {"max_runs": 1000, "blocks": [{"mode": "by_position", "context": {"a": vals}},
                                                                      {"mode": "by_position", "context": {"b": vals}},
                                                                      {"mode": "by_position", "context": {"c": vals}}]}, 10 ** 6))
    out.append(("block-x-source-1e4", {"max_runs": 10, "blocks": [{"mode": "combinatorial", "context": {"a": vals, "b": vals[:50]},
                                                                     "source": {"format": "csv", "path": "xy.csv"}}]}, 10 ** 4))
    return out


def huge_specs() -> List[Tuple[str, dict, int]]:
    vals = list(range(1000))
    keys = "abcdefghij"
    return [
        ("single-block-1e30", {"max_runs": 1000, "blocks": [{"mode": "combinatorial", "context": {k: vals for k in keys}}]}, 10 ** 30),
        ("single-block-1e9", {"max_runs": 10, "blocks": [{"mode": "combinatorial", "context": {k: vals for k in keys[:3]}}]}, 10 ** 9),
        ("source-combinatorial-1e12", {"max_runs": 1000, "blocks": [{"mode": "combinatorial", "context": {k: vals for k in keys[:3]},
                                                                      "source": {"format": "json", "path": "big_cols.json", "mode": "combinatorial"}}]}, 10 ** 12),
        # beyond the range of a float: the planned size must stay an exact integer all the way into the error
        ("four-blocks-1e320", {"max_runs": 1000, "blocks": [{"mode": "combinatorial", "context": {f"{p}{i}": list(range(10)) for i in range(80)}} for p in "wxyz"]}, 10 ** 320),
        ("two-blocks-1e18", {"max_runs": 1000, "blocks": [{"mode": "combinatorial", "context": {k: vals for k in keys[:3]}},
                                                           {"mode": "combinatorial", "context": {k: vals for k in keys[3:6]}}]}, 10 ** 18),
    ]


_CHILD = r"""
import json, sys, resource
resource.setrlimit(resource.RLIMIT_AS, (1 << 30, 1 << 30))
import yaml
from semantiva.configurations.load_pipeline_from_yaml import _parse_run_space_block
from semantiva.exceptions.pipeline_exceptions import RunSpaceMaxRunsExceededError
from semantiva.execution.run_space import expand_run_space
rs = json.load(open(sys.argv[1]))
try:
    expand_run_space(_parse_run_space_block(rs), cwd=sys.argv[2])
    print(json.dumps({"outcome": "returned"}))
except RunSpaceMaxRunsExceededError as e:
    print(json.dumps({"outcome": "cap", "actual": e.actual_runs, "max": e.max_runs}))
except MemoryError:
    print(json.dumps({"outcome": "MemoryError"}))
"""


def promptness(tier: str) -> Tuple[int, List[Violation], List[dict]]:
    d = harness.enter_scratch()
    harness.clear_dir(d)
    write_all(d)
    with open(os.path.join(d, "big_cols.json"), "w") as f:
        json.dump({"p": list(range(1000))}, f)
    viols: List[Violation] = []
    notes = []
    n = 0
    real_expand({"max_runs": 1, "blocks": [{"mode": "combinatorial", "context": {"a": [1, 2]}}]}, d)  # warm-up (imports)
    for label, rs, actual in big_specs():
        n += 1
        tracemalloc.start()
        got = real_expand(rs, d)
        cur, peak = tracemalloc.get_traced_memory()
        tracemalloc.stop()
        nvals = sum(len(v) for b in rs["blocks"] for v in b.get("context", {}).values())
        budget = 200_000 + 400 * (rs["max_runs"] + nvals)  # c * (max_runs + sum of list lengths)
        notes.append({"spec": label, "actual_runs": actual, "tracemalloc_peak_bytes": peak, "budget_bytes": budget, "outcome": got[0]})
        if got[0] != "cap" or got[1] != actual:
            viols.append(Violation("cap-not-enforced", f"{label}: expected max-runs error for {actual} runs, got {got[0]} {str(got[1:])[:80]}",
                                   {"kind": "big", "label": label}))
        elif peak > budget:
            viols.append(Violation("cap-after-materialisation",
                                   f"{label}: rejecting {actual} runs allocated {peak} bytes (budget {budget}): the expansion was materialised before the cap was checked",
                                   {"kind": "big", "label": label}))
    for label, rs, actual in huge_specs():
        n += 1
        sp = os.path.join(d, "huge.json")
        with open(sp, "w") as f:
            json.dump(rs, f)
        env = dict(os.environ)
        try:
            p = subprocess.run([sys.executable, "-c", _CHILD, sp, d], capture_output=True, text=True, timeout=20, env=env)
            line = (p.stdout.strip().splitlines() or ["{}"])[-1]
            try:
                res = json.loads(line)
            except Exception:
                res = {"outcome": f"exit {p.returncode}: {p.stderr[-200:]}"}
        except subprocess.TimeoutExpired:
            res = {"outcome": "timeout(20s)"}
        notes.append({"spec": label, "actual_runs": actual, "child": res})
        if res.get("outcome") != "cap" or res.get("actual") != actual:
            viols.append(Violation("cap-after-materialisation",
                                   f"{label}: a {actual}-run expansion under RLIMIT_AS=1GiB/20s gave {res} instead of the prompt max-runs error",
                                   {"kind": "huge", "label": label}))
    return n, viols, notes


def dry_run_slice() -> Tuple[int, List[Violation]]:
    """`semantiva run --run-space-dry-run` stdout must agree with the plan."""
    d = harness.enter_scratch()
    harness.clear_dir(d)
    write_all(d)
    tabs = tables()
    viols: List[Violation] = []
    n = 0
    picks = [
        {"combine": "combinatorial", "blocks": [{"mode": "combinatorial", "context": {"b": [10, 20], "a": [1, 2, 3]}}]},
        {"combine": "by_position", "blocks": [{"mode": "by_position", "context": {"a": [1, 2]}}, {"mode": "by_position", "source": {"format": "csv", "path": "xy.csv"}}]},
        {"combine": "combinatorial", "blocks": [{"mode": "by_position", "context": {"a": [1, 2]}}, {"mode": "combinatorial", "context": {"d": [5, 6, 7]}}]},
        {"combine": "combinatorial", "blocks": [{"mode": "combinatorial", "context": {"a": []}}]},
    ]
    for rs in picks:
        n += 1
        cfg = {"extensions": ["verif_lib"], "pipeline": {"nodes": [{"processor": "VSrcDef"}]}, "run_space": rs}
        yp = cli.write_yaml(os.path.join(d, "p.yaml"), cfg)
        res = cli.run_cli(["run", yp, "--run-space-dry-run"])
        exp = ref.plan(rs, tabs)
        want = list(exp[2]())
        ok = res.code == 0 and f"expanded_runs: {len(want)}" in res.out
        if want:
            first = json.dumps(want[0], separators=(",", ":"), default=str)
            last = json.dumps(want[-1], separators=(",", ":"), default=str)
            ok = ok and f"1: {first}" in res.out and f"{len(want)}: {last}" in res.out
        else:
            ok = ok and "0 runs" in res.out
        if not ok:
            viols.append(Violation("dry-run-disagrees-with-plan", f"dry-run output {res.out[-400:]!r} (exit {res.code}) vs plan of {len(want)} runs",
                                   {"kind": "dry", "spec": rs}))
        # the cap given on the command line, at and around the plan's size and at 0: exceeded <=> refused, whatever else is asked for
        for cap in sorted({0, 1, max(len(want) - 1, 0), len(want), len(want) + 1}):
            for extra in ([], ["--run-space-dry-run"], ["--dry-run"]):
                n += 1
                res = cli.run_cli(["run", yp, "-q", "--run-space-max-runs", str(cap), *extra])
                refused = "max_runs" in (res.out + res.err) or "exceed" in (res.out + res.err).lower()
                should = len(want) > cap
                if should != (res.code != 0 and refused) and not (not should and res.code == 0):
                    viols.append(Violation("command-line-cap-not-enforced" if should else "command-line-cap-refuses-plan-within-cap",
                                           f"--run-space-max-runs {cap} {' '.join(extra)} on a plan of {len(want)} runs: exit {res.code}, output {(res.out + res.err)[-200:]!r}",
                                           {"kind": "dry", "spec": rs}))
    return n, viols


# ---- source-file histories: the plan is a function of what the file holds NOW -----------------------------------
HIST_TABLES = [TABLE_XY, TABLE_XYZ3, {"x": [5, 6], "y": [7.5, 8.5]}, TABLE_XY, {"x": [1, 2, 3, 4, 5], "q": [1, 1, 2, 3, 5]}]


def file_histories(tier: str) -> Tuple[int, List[Violation]]:
    """One process, one path per format; the file is rewritten between expansions (same keys / other values, other keys,
    other length, back to the first content).  Every expansion must be the documented plan of the CURRENT content, incl. the cap."""
    d = harness.enter_scratch()
    harness.clear_dir(d)
    n = 0
    viols: List[Violation] = []
    shapes = [("csv", "rows"), ("json", "rows"), ("json", "cols"), ("yaml", "rows"), ("yaml", "cols"), ("ndjson", "rows")]
    orders = [list(range(len(HIST_TABLES)))] + ([[1, 0, 4, 2, 3], [4, 3, 2, 1, 0]] if tier == "thorough" else [])
    for fmt, shape in shapes:
        for oi, order in enumerate(orders):
            name = f"h{oi}_{shape}.{fmt}"
            for step, ti in enumerate(order):
                tab = HIST_TABLES[ti]
                write_table(d, name, fmt, tab, shape)
                tabs = {name: tab}
                for tmpl in ({"mode": "by_position", "source": {"format": fmt, "path": name}},
                             {"mode": "combinatorial", "context": {"k": [1, 2]}, "source": {"format": fmt, "path": name, "mode": "combinatorial"}}):
                    size = ref.plan({"blocks": [tmpl], "max_runs": 10 ** 9}, tabs)
                    for cap in caps_for(size[1] if size[0] == "ok" else 0):
                        spec = {"combine": "combinatorial", "blocks": [tmpl], "max_runs": cap}
                        n += 1
                        bad = judge(spec, d, tabs)
                        if bad:
                            viols.append(Violation(f"stale-or-wrong-plan-after-source-rewrite|{bad[0]}",
                                                   f"{name} rewritten {step} times (now {tab}); {json.dumps(spec)[:200]}: {bad[1]}",
                                                   {"kind": "filehist", "tier": tier}))
    # beyond the small scope: source files of 1500 rows / 1.3 MB (csv, ndjson): every row counts, for the plan and for the cap
    big = {"x": list(range(1500)), "pad": ["p" * 800] * 1500}
    for fmt in ("csv", "ndjson"):
        name = f"big.{fmt}"
        write_table(d, name, fmt, big, "rows")
        tabs = {name: big}
        for cap in (1000, 1499, 1500, 5000):
            spec = {"combine": "combinatorial", "blocks": [{"mode": "by_position", "source": {"format": fmt, "path": name, "select": ["x"]}}], "max_runs": cap}
            n += 1
            bad = judge(spec, d, tabs)
            if bad:
                viols.append(Violation(f"large-source-file|{bad[0]}", f"{name} (1500 rows, {os.path.getsize(os.path.join(d, name))} bytes), max_runs={cap}: {bad[1][:300]}",
                                       {"kind": "filehist", "tier": tier}))
    return n, viols


def check(tier: str, seed: int) -> Result:
    sp = core.seeded_order(specs(tier), seed)
    tot = 0
    outcomes: Dict[str, int] = {}
    distinct = set()
    viols: List[Violation] = []
    for o in core.pmap_chunks(_worker, sp, chunk=max(16, len(sp) // (core.NPROC * 4))):
        tot += o["n"]
        distinct.update(o["sizes"])
        for k, v in o["outcomes"].items():
            outcomes[k] = outcomes.get(k, 0) + v
        for sig, msg, spec in o["viol"]:
            viols.append(Violation(sig, f"{json.dumps(spec)[:400]}: {msg}", {"kind": "spec", "spec": spec}))
    nb, vb, notes = promptness(tier)
    viols.extend(vb)
    nd, vd = dry_run_slice()
    viols.extend(vd)
    nh, vh = file_histories(tier)
    viols.extend(vh)
    nd += nh
    cov = {
        "states": len(distinct), "transitions": tot, "traces_validated_against_impl": tot + nb + nd,
        "evaluations": tot + nb + nd, "distinct_nontrivial": len(distinct),
        "rule": "every combination of 9 inline-context templates x %d source templates x 2 block modes x 8 second-block templates x "
                "third-block templates x 2 combine modes, each with max_runs in {0,1,n-1,n,n+1,1000}; through the YAML loader and "
                "expand_run_space; distinct_nontrivial = distinct accepted ordered run lists; plus cap promptness on 1e4..1e30-run specs" % (
                    len(SRC1_QUICK) + (len(SRC1_MORE) if tier == "thorough" else 3)),
        "reference_outcomes": outcomes, "cap_promptness": notes, "dry_run_checked": nd - nh, "source_rewrite_history_expansions": nh,
        "samples": [sp[0], sp[len(sp) // 2]], "exhaustive": True,
    }
    return Result("model_checking", cov, viols, [
        "reference expander mc/ref/runspace.py; key-less blocks are outside the documented space",
        "promptness = tracemalloc peak <= 200kB + 400B*(max_runs + total list length) in-process, and cap error within 20 s under RLIMIT_AS=1GiB for astronomically large specs",
    ])


def replay(case) -> List[Violation]:
    if case["kind"] == "spec":
        d = harness.enter_scratch()
        harness.clear_dir(d)
        write_all(d)
        bad = judge(case["spec"], d, tables())
        return [Violation(bad[0], bad[1], case)] if bad else []
    if case["kind"] == "filehist":
        return file_histories(case.get("tier", "quick"))[1][:1]
    if case["kind"] == "dry":
        return dry_run_slice()[1]
    return [v for v in promptness("quick")[1] if v.case.get("label") == case.get("label")]


# ---------------------------------------------------------------------------------------------
# environment grid (mc/envgrid.py): the expansion is a function of the specification and the files it names, in every process
# (the 'cwd-elsewhere' environment works in a directory with a space and a non-ASCII character in its name, entered through a symlink)

def env_cases(tier: str):
    from mc import envgrid

    return [{**rs, "max_runs": 1000} for rs in envgrid.pick(specs("quick"), 150 if tier == "quick" else 1500)]


def env_observe(case):
    from mc import envgrid

    d = envgrid.scratch()
    if not os.path.exists(os.path.join(d, "xy.csv")):
        write_all(d)
    got = real_expand(case, d)
    bad = judge(case, d, tables())
    return envgrid.norm({"got": got[:2] if got[0] == "ok" else got, "judged": bad[0] if bad else None}, d)
