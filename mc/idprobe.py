"""Compute every configuration identity of one YAML file through the three paths, optionally after a history.

usage: python -m mc.idprobe <yaml> [--history op,op] [--other <yaml-B>] [--fake-epoch <float>] [--no-run]
prints one JSON object on stdout.
"""
from __future__ import annotations

import argparse
import json
import logging
import os
import sys
import tempfile


def fake_clock(epoch: float):
    import datetime as _dt
    import time as _time

    real = _time.time
    delta = epoch - real()
    _time.time = lambda: real() + delta

    class FakeDT(_dt.datetime):
        @classmethod
        def now(cls, tz=None):
            return _dt.datetime.fromtimestamp(real() + delta, tz)

    import semantiva.execution.orchestrator.orchestrator as orch
    import semantiva.trace.drivers.jsonl as jsonl

    orch.datetime = FakeDT
    jsonl.datetime = FakeDT


def load(path):
    import yaml
    from semantiva.configurations.load_pipeline_from_yaml import parse_pipeline_config

    with open(path) as f:
        raw = yaml.safe_load(f)
    return raw, parse_pipeline_config(raw, source_path=path, base_dir=os.path.dirname(os.path.abspath(path)))


def identities(raw, cfg, do_run: bool, pipeline=None):
    from semantiva.inspection import build_inspection_payload
    from semantiva.pipeline import Pipeline
    from semantiva.pipeline.graph_builder import compute_pipeline_id

    out = {}
    payload = build_inspection_payload(raw)
    out["payload"] = payload
    out["payload_json"] = json.dumps(payload, sort_keys=True, separators=(",", ":"), default=repr)
    p = pipeline or Pipeline(cfg.nodes)
    out["construct"] = {"node_uuids": [n["node_uuid"] for n in p.canonical_spec["nodes"]],
                        "pipeline_id": compute_pipeline_id(p.canonical_spec)}
    if do_run:
        out["trace"] = traced_run(cfg, p)
    return out, p


def traced_run(cfg, pipeline):
    from semantiva.context_processors import ContextType
    from semantiva.pipeline import Payload
    from semantiva.trace.drivers.jsonl import JsonlTraceDriver

    d = tempfile.mkdtemp(prefix="idprobe_")
    tp = os.path.join(d, "t.jsonl")
    pipeline.trace = JsonlTraceDriver(tp)
    ctx = {}
    try:
        from mc import gen

        ctx = dict(gen.KEY_VALUES)
        ctx["r"] = [2.0, 3.0]
        ctx.pop("b", None)
    except Exception:
        pass
    try:
        pipeline.process(Payload(None, ContextType(ctx)))
    except BaseException:
        pass
    start = None
    if os.path.exists(tp):
        with open(tp) as f:
            for line in f:
                r = json.loads(line)
                if r.get("record_type") == "pipeline_start":
                    start = r
                    break
    import shutil

    shutil.rmtree(d, ignore_errors=True)
    pipeline.trace = None
    if start is None:
        return None
    return {"pipeline_id": start["pipeline_id"], "semantic_id": start["meta"].get("semantic_id"), "config_id": start["meta"].get("config_id"),
            "node_semantic_ids": start["meta"].get("node_semantic_ids"),
            "node_uuids": [n["node_uuid"] for n in start["pipeline_spec_canonical"]["nodes"]]}


def main(argv=None):
    ap = argparse.ArgumentParser()
    ap.add_argument("yaml")
    ap.add_argument("--history", default="")
    ap.add_argument("--other", default=None)
    ap.add_argument("--fake-epoch", type=float, default=None)
    ap.add_argument("--no-run", action="store_true")
    a = ap.parse_args(argv)
    logging.disable(logging.CRITICAL)
    if a.fake_epoch is not None:
        fake_clock(a.fake_epoch)
    os.chdir(os.environ.get("VERIF_PROBE_CWD", os.getcwd()))
    raw, cfg = load(a.yaml)
    pipe_a = None
    for op in [o for o in a.history.split(",") if o]:
        apply_history(op, a, raw, cfg, holder := {"pipe": pipe_a})
        pipe_a = holder["pipe"]
    # the Pipeline path works on node definitions loaded AFRESH from the file: whatever inspection (or an earlier history step) did
    # to the mappings it was given must not matter for the identities of the configuration
    _, cfg_fresh = load(a.yaml)
    out, _ = identities(raw, cfg_fresh if pipe_a is None else cfg, not a.no_run, pipe_a)
    out["hashseed"] = os.environ.get("PYTHONHASHSEED")
    out["cwd"] = os.getcwd()
    print(json.dumps(out, sort_keys=True, default=repr))


KEEP = []  # everything a history built for configuration B stays referenced: B's objects coexist with A's


def apply_history(op, a, raw, cfg, holder):
    from semantiva.inspection import build_inspection_payload
    from semantiva.pipeline import Pipeline

    if op in ("inspectB", "constructB", "runB") and a.other:
        rawb, cfgb = load(a.other)
        KEEP.append((rawb, cfgb))
        if op == "inspectB":
            KEEP.append(build_inspection_payload(rawb))
        elif op == "constructB":
            KEEP.append(Pipeline(cfgb.nodes))
        else:
            pb = Pipeline(cfgb.nodes)
            KEEP.append(pb)
            traced_run(cfgb, pb)
    elif op == "inspectA":
        build_inspection_payload(raw)
    elif op == "runA":
        if holder["pipe"] is None:
            holder["pipe"] = Pipeline(cfg.nodes)
        traced_run(cfg, holder["pipe"])


if __name__ == "__main__":
    main()
