"""Trace grammar automaton + schema validation for C06 / C09.

single run : pipeline_start · ser^k · pipeline_end
launch     : run_space_start · (run)^m · run_space_end
"""
from __future__ import annotations

import json
import os
import re
from typing import Any, Dict, List, Optional, Tuple

_RFC3339 = re.compile(r"^(\d{4})-(\d{2})-(\d{2})T(\d{2}):(\d{2}):(\d{2})(\.\d+)?(Z|[+-]\d{2}:\d{2})$")

_VALIDATORS: Dict[str, Any] = {}
_REGISTRY_MAP: Dict[str, str] = {}


def rfc3339_ok(s: Any) -> bool:
    if not isinstance(s, str):
        return False
    m = _RFC3339.match(s)
    if not m:
        return False
    mo, d, h, mi, se = int(m.group(2)), int(m.group(3)), int(m.group(4)), int(m.group(5)), int(m.group(6))
    return 1 <= mo <= 12 and 1 <= d <= 31 and h < 24 and mi < 60 and se <= 60


def _load_validators():
    if _VALIDATORS:
        return
    import jsonschema
    import semantiva.trace.schema as pkg
    from referencing import Registry, Resource

    d = os.path.dirname(pkg.__file__)
    resources = []
    docs = {}
    for name in os.listdir(d):
        if name.endswith(".json"):
            with open(os.path.join(d, name)) as f:
                doc = json.load(f)
            docs[name] = doc
            if "$id" in doc and name != "trace_registry_v1.json":
                resources.append((doc["$id"], Resource.from_contents(doc)))
    reg = Registry().with_resources(resources)
    mapping = docs["trace_registry_v1.json"]["records"]
    by_id = {doc.get("$id"): doc for doc in docs.values()}
    for rtype, sid in mapping.items():
        _REGISTRY_MAP[rtype] = sid
        _VALIDATORS[rtype] = jsonschema.Draft202012Validator(by_id[sid], registry=reg)


def schema_errors(rec: dict) -> List[str]:
    _load_validators()
    rt = rec.get("record_type")
    v = _VALIDATORS.get(rt)
    if v is None:
        return [f"record_type {rt!r} is not in the trace registry"]
    errs = [f"{'/'.join(map(str, e.absolute_path))}: {e.message}"[:200] for e in v.iter_errors(rec)]
    # format "date-time" has no checker backend installed: check by hand
    for path, val in _timestamps(rec):
        if not rfc3339_ok(val):
            errs.append(f"{path}: {val!r} is not an RFC 3339 date-time")
    return errs


def _timestamps(rec: dict):
    if "timestamp" in rec:
        yield "timestamp", rec["timestamp"]
    t = rec.get("timing") or {}
    for k in ("started_at", "finished_at"):
        if k in t:
            yield f"timing/{k}", t[k]


def check_single_run(records: List[dict], *, returned: bool, nodes_started: int, expect_any: bool = True) -> Optional[Tuple[str, str]]:
    """Grammar + field constraints of one traced run.  nodes_started = number of nodes whose processing began."""
    if not records:
        return ("trace-empty", "no records on disk when the call returned/raised") if expect_any else None
    for i, r in enumerate(records):
        errs = schema_errors(r)
        if errs:
            return ("schema-invalid-record", f"line {i} ({r.get('record_type')}): {errs[:3]}")
    types = [r.get("record_type") for r in records]
    if types[0] != "pipeline_start":
        return ("grammar-no-start", f"stream begins with {types[0]}: {types}")
    if types.count("pipeline_start") != 1:
        return ("grammar-multiple-start", f"{types}")
    if types.count("pipeline_end") != 1:
        return ("grammar-pipeline-end-count", f"expected exactly one pipeline_end, stream is {types}")
    if types[-1] != "pipeline_end":
        return ("grammar-end-not-last", f"pipeline_end is not the last record: {types}")
    sers = records[1:-1]
    if any(r.get("record_type") != "ser" for r in sers):
        return ("grammar-foreign-record", f"{types}")
    if len(sers) != nodes_started:
        return ("grammar-ser-count", f"{len(sers)} SER records for {nodes_started} started nodes: {types}")
    start, end = records[0], records[-1]
    run_id, pid = start["run_id"], start["pipeline_id"]
    canon = start["pipeline_spec_canonical"]
    cn = [n["node_uuid"] for n in canon.get("nodes", [])]
    ups: Dict[str, List[str]] = {u: [] for u in cn}
    for e in canon.get("edges", []):
        ups.setdefault(e["target"], []).append(e["source"])
    # the canonical graph of a pipeline is a chain of pairwise distinct nodes in declaration order
    if len(set(cn)) != len(cn):
        return ("canonical-node-ids-not-distinct", f"pipeline_start lists node ids {cn}")
    chain = [(cn[i - 1], cn[i]) for i in range(1, len(cn))]
    emitted = [(e["source"], e["target"]) for e in canon.get("edges", [])]
    if sorted(emitted) != sorted(chain):
        return ("canonical-edges-not-the-declaration-chain", f"edges {emitted} for nodes {cn}")
    if end.get("run_id") != run_id:
        return ("ids-differ", f"pipeline_end.run_id {end.get('run_id')} != {run_id}")
    for i, s in enumerate(sers):
        ident = s["identity"]
        if ident.get("run_id") != run_id or ident.get("pipeline_id") != pid:
            return ("ids-differ", f"SER {i} identity {ident} vs run {run_id} / pipeline {pid}")
        if i >= len(cn) or ident.get("node_id") != cn[i]:
            return ("ser-not-in-canonical-order", f"SER {i} node_id {ident.get('node_id')} != canonical node {cn[i] if i < len(cn) else None}")
        if s["dependencies"]["upstream"] != ups.get(cn[i], []):
            return ("wrong-upstream", f"SER {i} upstream {s['dependencies']['upstream']} != canonical edges {ups.get(cn[i], [])}")
        want = "succeeded" if (returned or i < len(sers) - 1) else "error"
        if s.get("status") != want:
            return ("wrong-ser-status", f"SER {i} status {s.get('status')} expected {want}")
    ok = (end.get("summary") or {}).get("status") == "ok"
    if ok != returned:
        return ("wrong-end-status", f"pipeline_end.summary={end.get('summary')} but the call {'returned' if returned else 'raised'}")
    return None
