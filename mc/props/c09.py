"""C09 — a run-space launch equals its independent runs and is linked by stable IDs.

Enumerates (pipeline, run_space) pairs x failing run at every index x file/directory trace output x launch-id
options x attempts through the real CLI (in-process), and compares every run of a launch with a standalone
`semantiva run --context ...` of the same context; checks the launch bracket, foreign keys, spec / launch /
inputs ids under cosmetic rewrites and single-point mutations of the run_space block.
"""
from __future__ import annotations

import copy
import itertools
import json
import os
import re
from typing import Any, Dict, List, Optional, Tuple

import yaml

from mc import cli, core, harness, yamlrw
from mc.core import Result, Violation
from mc.props.c10 import first_diff, normalise
from mc.ref import runspace as rsref
from mc.ref import tracegrammar

FAIL = 666.0


def n(proc, params=None, **extra):
    d: Dict[str, Any] = {"processor": proc}
    if params is not None:
        d["parameters"] = params
    d.update(extra)
    return d


SWEEP_OP = {"processor": "VMul", "derive": {"parameter_sweep": {"parameters": {"factor": "t"}, "variables": {"t": {"from_context": "ts"}},
                                                                 "collection": "FloatDataCollection"}}}
PIPELINES: Dict[str, List[dict]] = {
    "plain": [n("VSrc"), n("VFailIf"), n("VProbe", context_key="r"), n('template:"out_{value}.txt":path'), n("VTxtSink")],
    "two": [n("VSrc"), n("VTwo"), n("VFailIf"), n("VGainProbe", context_key="gain"), n('template:"out_{value}.txt":path'), n("VTxtSink")],
    # a key supplied once on the command line (--context) and consumed destructively by every run: each run gets its own copy
    "consume": [n("VSrc"), n("VFailIf"), n("rename:tagsrc:tag"), n("delete:scrap"), n("VProbe", context_key="r"), n('template:"out_{value}.txt":path'), n("VTxtSink")],
    "sweep": [n("VSrc"), SWEEP_OP, n("VSum"), n("VFailIf"), n("VProbe", context_key="r"), n('template:"out_{value}.txt":path'), n("VTxtSink")],
}


def run_spaces(fail_at: Optional[int], nruns: int) -> Dict[str, dict]:
    vals = [float(i + 1) for i in range(nruns)]
    a = [FAIL if i == fail_at else 0.0 for i in range(nruns)]
    return {
        "zip": {"blocks": [{"mode": "by_position", "context": {"value": vals, "a": a}}]},
        "two-blocks": {"combine": "by_position", "blocks": [{"mode": "by_position", "context": {"value": vals}},
                                                            {"mode": "by_position", "context": {"a": a, "factor": [float(10 + i) for i in range(nruns)]}}]},
        "product": {"combine": "combinatorial", "blocks": [{"mode": "by_position", "context": {"value": vals[:2], "a": a[:2]}},
                                                           {"mode": "combinatorial", "context": {"factor": [3.0, 4.0][: max(1, nruns - 1)]}}]},
        # beyond the small scope: values nested six container levels deep, keys written out of order at every level
        "deep": {"blocks": [{"mode": "by_position", "context": {"value": vals, "a": a, "cfg": [
            {"z": 1, "m": {"y": [{"q": {"p2": [{"zz": i, "aa": {"k2": 1, "k1": [i, {"b": 2, "a": 1}]}}], "p1": 0}}], "x": i}} for i in range(nruns)]}}]},
        # strings with line breaks of every kind, at the end too (a YAML block scalar ends with one)
        "newlines": {"blocks": [{"mode": "by_position", "context": {"value": vals, "a": a, "note": ["alpha\n", "x\x0by\r\nz\r", "p\u2028q\x85\x0c"][:nruns] + ["t\n\n"] * max(0, nruns - 3)}}]},
        # a combinatorial block whose keys are WRITTEN in non-alphabetical order: the plan iterates keys in sorted order, last fastest
        "product-unsorted": {"combine": "by_position", "blocks": [
            {"mode": "combinatorial", "context": {"zeta": [1, 2], "label": ["p", "q"]}},
            {"mode": "by_position", "context": {"value": [1.0, 2.0, 3.0, 4.0], "a": [FAIL if i == fail_at else 0.0 for i in range(4)]}}]},
        "sweepctx": {"blocks": [{"mode": "by_position", "context": {"value": vals, "a": a, "ts": [[1.0, 2.0] if i % 2 == 0 else [3.0] for i in range(nruns)]}}]},
        "csv": {"blocks": [{"mode": "by_position", "context": {"a": a}, "source": {"format": "csv", "path": "runs.csv", "select": ["value", "factor"]}}]},
        # unusual-but-legal values: non-ASCII strings, a key with a dot, booleans and nulls ride along in the run context
        "unicode": {"blocks": [{"mode": "by_position", "context": {"value": vals, "a": a, "label": ["caf\u00e9", "na\u00efve \u00fc", "\u65e5\u672c"][:nruns] + ["x"] * max(0, nruns - 3),
                                                                  "opt.flag": [True, None, False][:nruns] + [True] * max(0, nruns - 3)}}]},
    }


PIPE_BASE_CTX: Dict[str, Dict[str, Any]] = {"consume": {"tagsrc": "T0", "scrap": 1.5}}
COMPAT = {"consume": ["zip", "product-unsorted"], "plain": ["zip", "two-blocks", "product", "csv", "unicode", "product-unsorted", "newlines", "deep"], "two": ["two-blocks", "product", "csv"], "sweep": ["sweepctx"]}


def plan_of(rs: dict, scratch: str) -> List[dict]:
    tabs = {"runs.csv": {"value": [1.0, 2.0, 3.0], "factor": [0.5, 1.5, 2.5], "other": [1, 2, 3]}}
    p = rsref.plan({**rs, "max_runs": 10 ** 6}, tabs)
    assert p[0] == "ok", p
    return list(p[2]())


def write_csv(scratch: str, nruns: int, variant: int = 0):
    with open(os.path.join(scratch, "runs.csv"), "w") as f:
        f.write("value,factor,other\n")
        for i in range(nruns):
            f.write(f"{float(i + 1)},{0.5 + i + variant},{i + 1}\n")


def ctx_args(ctx: Dict[str, Any]) -> List[str]:
    out = []
    for k, v in ctx.items():
        out += ["--context", f"{k}={json.dumps(v)}"]
    return out


def strip_fk(records: List[dict]) -> List[dict]:
    out = []
    for r in normalise(records):
        for k in ("run_space_launch_id", "run_space_attempt", "run_space_index", "run_space_context"):
            r.pop(k, None)
        out.append(r)
    return out


def sink_files(scratch: str) -> Dict[str, str]:
    out = {}
    for name in sorted(os.listdir(scratch)):
        if name.startswith("out_") and name.endswith(".txt"):
            with open(os.path.join(scratch, name)) as f:
                out[name] = f.read()
    return out


def nodes_for(pipe: str, rs: Optional[dict], ctx: Optional[dict] = None) -> List[dict]:
    """Pipeline nodes; the sink file is named after every run-space key that varies so each run writes its own file."""
    nodes = copy.deepcopy(PIPELINES[pipe])
    keys = set(ctx or {})
    for b in (rs or {}).get("blocks", []):
        keys |= set(b.get("context", {}))
        if b.get("source"):
            keys |= set(b["source"].get("select") or [])
    if "factor" in keys:
        for nd in nodes:
            if nd["processor"].startswith("template:"):
                nd["processor"] = 'template:"out_{value}_{factor}.txt":path'
    return nodes


def sink_name(run: dict) -> str:
    return f"out_{run['value']}_{run['factor']}.txt" if "factor" in run else f"out_{run['value']}.txt"


def launch(pipe: str, rs: dict, scratch: str, mode: str, extra: List[str], cfg_extra: Optional[dict] = None):
    harness.clear_dir(scratch)
    write_csv(scratch, 3)
    tpath = os.path.join(scratch, "trace.jsonl") if mode == "file" else os.path.join(scratch, "tdir")
    cfg = {"extensions": ["verif_lib"], "pipeline": {"nodes": nodes_for(pipe, rs)}, "run_space": copy.deepcopy(rs),
           "trace": {"driver": "jsonl", "output_path": tpath, "options": {"detail": "hash"}}}
    if cfg_extra:
        cfg.update(cfg_extra)
    yp = cli.write_yaml(os.path.join(scratch, "p.yaml"), cfg)
    res = cli.run_cli(["run", yp, "-q", *extra])
    records, files = cli.collect_trace(tpath)
    return res, records, files, sink_files(scratch), cfg


def standalone(pipe: str, ctx: Dict[str, Any], scratch: str):
    harness.clear_dir(scratch)
    tpath = os.path.join(scratch, "trace.jsonl")
    cfg = {"extensions": ["verif_lib"], "pipeline": {"nodes": nodes_for(pipe, None, ctx)},
           "trace": {"driver": "jsonl", "output_path": tpath, "options": {"detail": "hash"}}}
    yp = cli.write_yaml(os.path.join(scratch, "p.yaml"), cfg)
    res = cli.run_cli(["run", yp, "-q", *ctx_args(ctx)])
    records, _ = cli.collect_trace(tpath)
    return res, records, sink_files(scratch)


def split_runs(records: List[dict]) -> Tuple[List[dict], List[List[dict]], List[dict]]:
    starts = [r for r in records if r.get("record_type") == "run_space_start"]
    ends = [r for r in records if r.get("record_type") == "run_space_end"]
    runs: List[List[dict]] = []
    for r in records:
        t = r.get("record_type")
        if t == "pipeline_start":
            runs.append([r])
        elif t in ("ser", "pipeline_end") and runs:
            runs[-1].append(r)
    return starts, runs, ends


def judge_launch(pipe: str, rsname: str, nruns: int, fail_at: Optional[int], mode: str, scratch: str) -> List[Tuple[str, str, dict]]:
    out: List[Tuple[str, str, dict]] = []
    rs = run_spaces(fail_at, nruns)[rsname]
    case = {"kind": "launch", "pipe": pipe, "rs": rsname, "nruns": nruns, "fail_at": fail_at, "mode": mode}
    plan = plan_of(rs, scratch)
    failing = next((i for i, r in enumerate(plan) if r.get("a") == FAIL), None)
    base_ctx = PIPE_BASE_CTX.get(pipe, {})
    res, records, files, sinks, cfg = launch(pipe, rs, scratch, mode, ctx_args(base_ctx))
    starts, runs, ends = split_runs(records)

    def bad(sig, msg):
        out.append((sig, f"{pipe}/{rsname} n={nruns} fail_at={fail_at} {mode}: {msg}", case))

    expected_started = len(plan) if failing is None else failing + 1
    if (res.code == 0) != (failing is None):
        bad("wrong-exit-code", f"exit code {res.code} with failing run {failing}: {res.err[-200:]}")
    if len(starts) != 1 or len(ends) != 1:
        bad("launch-bracket-broken", f"{len(starts)} run_space_start and {len(ends)} run_space_end records")
        return out
    for r in starts + ends:
        errs = tracegrammar.schema_errors(r)
        if errs:
            bad("schema-invalid-record", f"{r['record_type']}: {errs[:2]}")
    if records[0] is not starts[0] or records[-1] is not ends[0]:
        bad("launch-bracket-broken", f"run_space_start/end do not bracket the stream: {[r['record_type'] for r in records]}")
    st, en = starts[0], ends[0]
    if st.get("run_space_planned_run_count") != len(plan) or st.get("run_space_total_runs") != len(plan):
        bad("untruthful-planned-count", f"planned {st.get('run_space_planned_run_count')} / total {st.get('run_space_total_runs')} for a plan of {len(plan)} runs")
    summ = en.get("summary") or {}
    completed = len(plan) if failing is None else failing
    if summ.get("planned_runs") != len(plan) or summ.get("completed_runs") != completed:
        bad("untruthful-end-summary", f"run_space_end.summary={summ}; plan has {len(plan)} runs, {completed} completed")
    if len(runs) != expected_started:
        bad("wrong-number-of-runs-started", f"{len(runs)} runs started, expected {expected_started} (runs after a failed run must not start)")
    lid, att = st["run_space_launch_id"], st["run_space_attempt"]
    if en["run_space_launch_id"] != lid or en["run_space_attempt"] != att:
        bad("launch-ids-differ", "run_space_end carries a different launch id / attempt")
    for i, run in enumerate(runs):
        ps = run[0]
        if ps.get("run_space_launch_id") != lid or ps.get("run_space_attempt") != att:
            bad("missing-foreign-key", f"run {i}: pipeline_start launch id/attempt {ps.get('run_space_launch_id')}/{ps.get('run_space_attempt')} vs {lid}/{att}")
        if ps.get("run_space_index") != i:
            bad("wrong-run-index", f"run {i}: run_space_index={ps.get('run_space_index')}")
        if i < len(plan) and ps.get("run_space_context") != {**base_ctx, **plan[i]}:
            bad("wrong-run-context", f"run {i}: run_space_context={ps.get('run_space_context')} but the plan (over the --context values {base_ctx}) says {plan[i]}")
        g = tracegrammar.check_single_run(run, returned=(failing is None or i < failing), nodes_started=len([r for r in run if r["record_type"] == "ser"]))
        if g:
            bad("run-trace-malformed|" + g[0], f"run {i}: {g[1]}")
    # plan order of sink files + equality with standalone runs
    launch_sinks = dict(sinks)
    for i, run in enumerate(runs):
        if i >= len(plan):
            break
        sres, srecs, ssinks = standalone(pipe, {**base_ctx, **plan[i]}, scratch)
        if (sres.code == 0) != (failing is None or i < failing):
            bad("standalone-exit-differs", f"run {i}: standalone exit {sres.code}")
        a, b = strip_fk(run), strip_fk(srecs)
        if a != b:
            bad("run-differs-from-standalone", f"run {i} (context {plan[i]}): {first_diff(b, a)[:300]}")
        for name, content in ssinks.items():
            if launch_sinks.get(name) != content:
                bad("sink-differs-from-standalone", f"run {i}: sink {name} holds {launch_sinks.get(name)!r} in the launch, {content!r} standalone")
    expected_files = {sink_name(r) for r in plan[:completed]}
    if set(launch_sinks) != expected_files:
        bad("wrong-sink-files", f"sink files {sorted(launch_sinks)} expected {sorted(expected_files)}")
    return out


# ---- identities ------------------------------------------------------------------------------------------------------

def inspect_spec_id(cfg: dict, scratch: str) -> Optional[str]:
    yp = cli.write_yaml(os.path.join(scratch, "i.yaml"), cfg)
    res = cli.run_cli(["inspect", yp])
    m = re.search(r"Run-Space Config ID:\s+(\S+)", res.out)
    return m.group(1) if m else None


def launch_ids(pipe: str, rs: dict, scratch: str, extra: List[str], csv_variant: Optional[int] = None, touch: bool = False, yaml_text: Optional[str] = None,
               subdir: bool = False, prepare=None, decoy_variant: int = 7):
    """subdir: the configuration and its source file live in <scratch>/cfg while the process works in <scratch>, where a DECOY
    runs.csv with other content lies: relative source paths are relative to the configuration file, not to the working directory."""
    harness.clear_dir(scratch)
    if subdir:
        os.mkdir(os.path.join(scratch, "cfg"))
        write_csv(os.path.join(scratch, "cfg"), 3, csv_variant or 0)
        write_csv(scratch, 2, decoy_variant)
        return _launch_ids_in(pipe, rs, scratch, os.path.join(scratch, "cfg"), extra, yaml_text)
    write_csv(scratch, 3, csv_variant or 0)
    if prepare is not None:
        prepare()
    if touch:
        os.utime(os.path.join(scratch, "runs.csv"), (1.0e9, 1.0e9))
    return _launch_ids_in(pipe, rs, scratch, scratch, extra, yaml_text)


def _launch_ids_in(pipe, rs, scratch, cfgdir, extra, yaml_text):
    tpath = os.path.join(scratch, "trace.jsonl")
    cfg = {"extensions": ["verif_lib"], "pipeline": {"nodes": nodes_for(pipe, rs)}, "run_space": copy.deepcopy(rs),
           "trace": {"driver": "jsonl", "output_path": tpath, "options": {"detail": "hash"}}}
    yp = os.path.join(cfgdir, "p.yaml")
    with open(yp, "w") as f:
        f.write(yaml_text if yaml_text is not None else yaml.safe_dump(cfg, sort_keys=False))
    res = cli.run_cli(["run", yp, "-q", *extra])
    records, _ = cli.collect_trace(tpath)
    LAST_RECORDS[:] = records
    st = [r for r in records if r.get("record_type") == "run_space_start"]
    return (st[0] if st else None), cfg, res


LAST_RECORDS: List[dict] = []  # all records of the most recent launch_ids() launch


def judge_ids(scratch: str, tier: str) -> Tuple[int, List[Tuple[str, str, dict]]]:
    out: List[Tuple[str, str, dict]] = []
    n_eval = 0
    for pipe, rsname in [("plain", "zip"), ("plain", "csv"), ("two", "product"), ("plain", "two-blocks"), ("plain", "unicode"), ("plain", "newlines"), ("plain", "deep")]:
        rs = run_spaces(None, 3)[rsname]
        case = {"kind": "ids", "pipe": pipe, "rs": rsname}

        def bad(sig, msg):
            out.append((sig, f"{pipe}/{rsname}: {msg}", case))

        st, cfg, res = launch_ids(pipe, rs, scratch, [])
        n_eval += 1
        if st is None:
            bad("launch-bracket-broken", f"no run_space_start ({res.err[-200:]})")
            continue
        spec = st["run_space_spec_id"]
        ins = inspect_spec_id({k: v for k, v in cfg.items() if k != "trace"}, scratch)
        n_eval += 1
        if ins != spec:
            bad("inspect-spec-id-differs-from-trace", f"semantiva inspect prints run-space spec id {ins}; run_space_start carries {spec}")
        # cosmetic rewrites of the run_space block (whole-file YAML rewrites)
        nrw = 0
        for label, text in itertools.islice(yamlrw.rewrites(cfg), 0, 400):
            if "run_space" not in label and label not in ("flow-all", "comments", "indent4", "block"):
                continue
            st2, _, _ = launch_ids(pipe, rs, scratch, [], yaml_text=text)
            n_eval += 1
            nrw += 1
            if st2 is None or st2["run_space_spec_id"] != spec:
                bad("spec-id-changes-under-cosmetic-rewrite", f"rewrite {label}: {st2 and st2['run_space_spec_id']} vs {spec}")
                break
            if tier == "quick" and nrw >= 12:
                break
        # single-point plan mutations
        for path, v in yamlrw.walk(rs):
            muts = yamlrw.scalar_mutants(v) if not isinstance(v, (dict, list)) else []
            if path and path[-1] in ("format", "path", "mode", "combine") or (len(path) >= 2 and path[-2] == "select"):
                muts = {"by_position": ["combinatorial"], "combinatorial": ["by_position"]}.get(v, []) if path[-1] in ("mode", "combine") else []
            for mv in muts[:1]:
                rs2 = yamlrw.set_(rs, path, mv)
                try:
                    plan_of(rs2, scratch)
                except Exception:
                    continue
                st2, _, res2 = launch_ids(pipe, rs2, scratch, [])
                n_eval += 1
                if st2 is not None and st2["run_space_spec_id"] == spec:
                    bad("spec-id-unchanged-under-plan-mutation", f"mutation at {'/'.join(map(str, path))}: {v!r} -> {mv!r} keeps spec id {spec}")
        # block order
        if len(rs.get("blocks", [])) > 1:
            rs2 = copy.deepcopy(rs)
            rs2["blocks"].reverse()
            st2, _, _ = launch_ids(pipe, rs2, scratch, [])
            n_eval += 1
            if st2 is not None and st2["run_space_spec_id"] == spec:
                bad("spec-id-unchanged-under-plan-mutation", "reversing the block order keeps the spec id")
        # launch ids
        a, _, _ = launch_ids(pipe, rs, scratch, ["--run-space-idempotency-key", "k1"])
        b, _, _ = launch_ids(pipe, rs, scratch, ["--run-space-idempotency-key", "k1"])
        c, _, _ = launch_ids(pipe, rs, scratch, ["--run-space-idempotency-key", "k2"])
        g1, _, _ = launch_ids(pipe, rs, scratch, [])
        e, _, _ = launch_ids(pipe, rs, scratch, ["--run-space-launch-id", "my-launch", "--run-space-attempt", "2"])
        n_eval += 5
        if not (a and b and c and g1 and e):
            bad("launch-bracket-broken", "a launch-id variant produced no run_space_start")
            continue
        if a["run_space_launch_id"] != b["run_space_launch_id"]:
            bad("idempotent-launch-id-not-reproducible", f"{a['run_space_launch_id']} vs {b['run_space_launch_id']}")
        if a["run_space_launch_id"] == c["run_space_launch_id"]:
            bad("launch-id-ignores-idempotency-key", "different keys give the same launch id")
        if g1["run_space_launch_id"] in (st["run_space_launch_id"], a["run_space_launch_id"]):
            bad("generated-launch-ids-collide", "two generated launch ids are equal")
        if e["run_space_launch_id"] != "my-launch" or e["run_space_attempt"] != 2:
            bad("explicit-launch-id-ignored", f"{e['run_space_launch_id']} attempt {e['run_space_attempt']}")
        # every launch-id option x every attempt: the requested attempt (default 1) is on run_space_start, on every
        # pipeline_start and on run_space_end, together with one launch id; a retry of a keyed launch keeps the launch id
        ids_by_opt: Dict[str, set] = {}
        for oname, oargs in (("generated", []), ("explicit", ["--run-space-launch-id", "L-7"]), ("key", ["--run-space-idempotency-key", "k1"])):
            for att in (None, 1, 2, 3):
                if tier == "quick" and rsname not in ("zip", "csv") and att in (1, 3):
                    continue
                s_, _, r_ = launch_ids(pipe, rs, scratch, oargs + ([] if att is None else ["--run-space-attempt", str(att)]))
                n_eval += 1
                want = 1 if att is None else att
                if s_ is None:
                    bad("launch-bracket-broken", f"launch id option {oname}, attempt {att}: no run_space_start ({r_.err[-150:]})")
                    continue
                recs = [r for r in LAST_RECORDS if r.get("record_type") in ("run_space_start", "pipeline_start", "run_space_end")]
                wrong = [(r["record_type"], r.get("run_space_attempt")) for r in recs if r.get("run_space_attempt") != want]
                if wrong:
                    bad(f"wrong-attempt|{oname}", f"launch id option {oname}, --run-space-attempt {att}: records carry {wrong[:3]} instead of attempt {want}")
                lids = {r.get("run_space_launch_id") for r in recs}
                if len(lids) != 1:
                    bad("launch-ids-differ", f"launch id option {oname}, attempt {att}: records carry launch ids {sorted(map(str, lids))}")
                ids_by_opt.setdefault(oname, set()).update(lids)
        if len(ids_by_opt.get("key", {0})) != 1 or len(ids_by_opt.get("explicit", {0})) != 1:
            bad("launch-id-depends-on-attempt", f"retries of one keyed / explicit launch carry launch ids {ids_by_opt.get('key')} / {ids_by_opt.get('explicit')}")
        rs_m = yamlrw.set_(rs, ("blocks", 0, "context", "a", 0), 1.0) if "a" in rs["blocks"][0].get("context", {}) else None
        if rs_m:
            d, _, _ = launch_ids(pipe, rs_m, scratch, ["--run-space-idempotency-key", "k1"])
            n_eval += 1
            if d and d["run_space_launch_id"] == a["run_space_launch_id"]:
                bad("launch-id-ignores-plan", "same idempotency key, different plan, same launch id")
        # inputs id <=> file content
        if rsname == "csv":
            base_in = st.get("run_space_inputs_id")
            sd, _, rsd = launch_ids(pipe, rs, scratch, [], subdir=True)
            n_eval += 1
            if sd is None or rsd.code != 0:
                bad("relative-source-path-not-relative-to-config", f"configuration in a sub-directory, other working directory: exit {rsd.code} {rsd.err[-200:]!r}")
            else:
                starts = [r for r in LAST_RECORDS if r.get("record_type") == "pipeline_start"]
                got = [r.get("run_space_context", {}).get("factor") for r in starts]
                # (the inputs id legitimately differs: RSM v1 fingerprints carry the file's absolute URI)
                if sd["run_space_spec_id"] != spec or got != [0.5, 1.5, 2.5]:
                    bad("relative-source-path-not-relative-to-config",
                        f"same configuration + source file in a sub-directory (a decoy runs.csv in the working directory): spec {sd['run_space_spec_id'][:12]} vs {spec[:12]}, "
                        f"factors of the runs {got}")
                # ... and it is the configuration's file that is fingerprinted, not its namesake in the working directory
                sd2, _, _ = launch_ids(pipe, rs, scratch, [], subdir=True, decoy_variant=8)
                sd3, _, _ = launch_ids(pipe, rs, scratch, [], subdir=True, csv_variant=1)
                n_eval += 2
                if sd2 is None or sd3 is None:
                    bad("launch-bracket-broken", "no run_space_start for the configuration in a sub-directory")
                else:
                    if sd2.get("run_space_inputs_id") != sd.get("run_space_inputs_id"):
                        bad("inputs-id-follows-unrelated-file", "the inputs id changed although only the namesake file in the working directory (which the "
                            "configuration does not reference) changed")
                    if sd3.get("run_space_inputs_id") == sd.get("run_space_inputs_id"):
                        bad("inputs-id-ignores-file-content", "the referenced file (next to the configuration, not in the working directory) changed, the inputs id did not")
            # a source file of several MiB (read in chunks) whose variants differ in their LAST byte only
            rs_big = {"blocks": [{"mode": "by_position", "context": {"a": [0.0, 0.0, 0.0]}, "source": {"format": "json", "path": "big.json", "select": ["value", "factor"]}}]}
            big_ids = []
            for tail in ("A", "A", "B"):
                harness.clear_dir(scratch)
                rows = [{"value": float(i + 1), "factor": 0.5 + i, "pad": "x" * (1 << 20) + (tail if i == 2 else "")} for i in range(3)]
                def _write_big(rows=rows):
                    with open(os.path.join(scratch, "big.json"), "w") as f:
                        json.dump(rows, f)
                sb, _, rb = launch_ids(pipe, rs_big, scratch, [], prepare=_write_big)
                n_eval += 1
                big_ids.append(None if sb is None else sb.get("run_space_inputs_id"))
            if None in big_ids:
                bad("launch-bracket-broken", "a launch over a 3 MiB JSON source produced no run_space_start / inputs id")
            else:
                if big_ids[0] != big_ids[1]:
                    bad("inputs-id-not-reproducible", "the same 3 MiB source file gives two different run_space_inputs_id values")
                if big_ids[2] == big_ids[0]:
                    bad("inputs-id-ignores-content", "a 3 MiB source file changed in its last byte keeps run_space_inputs_id")
            t, _, _ = launch_ids(pipe, rs, scratch, [], touch=True)
            ch, _, _ = launch_ids(pipe, rs, scratch, [], csv_variant=1)
            n_eval += 2
            if base_in is None:
                bad("inputs-id-missing", "a run space with a source file has no run_space_inputs_id")
            else:
                if t["run_space_inputs_id"] != base_in:
                    bad("inputs-id-depends-on-mtime", "changing only the file's mtime changes run_space_inputs_id")
                if ch["run_space_inputs_id"] == base_in:
                    bad("inputs-id-ignores-content", "changing the file's content keeps run_space_inputs_id")
                if ch["run_space_spec_id"] != spec:
                    bad("spec-id-depends-on-file-content", "changing the file's content changes run_space_spec_id")
    return n_eval, out


def _worker(chunk):
    harness.quiet()
    scratch = harness.enter_scratch()
    out = {"n": 0, "viol": [], "nontrivial": 0}
    for job in chunk:
        if job[0] == "ids":
            n, v = judge_ids(scratch, job[1])
            out["n"] += n
            out["nontrivial"] += n
            out["viol"].extend(v)
        else:
            _, pipe, rsname, nruns, fail_at, mode = job
            v = judge_launch(pipe, rsname, nruns, fail_at, mode, scratch)
            out["n"] += 1 + nruns
            out["nontrivial"] += 1
            out["viol"].extend(v)
    return out


def check(tier: str, seed: int) -> Result:
    jobs: List[tuple] = []
    for pipe, rss in COMPAT.items():
        for rsname in rss:
            for nruns in ([3] if tier == "quick" else [2, 3, 4]):
                fails = [None, 0, nruns - 1] if tier == "quick" else [None] + list(range(nruns))
                for fa in fails:
                    if rsname == "csv" and nruns != 3:
                        continue
                    if rsname == "product" and fa is not None and fa > 1:
                        continue
                    for mode in ("file", "dir"):
                        jobs.append(("launch", pipe, rsname, nruns, fa, mode))
    jobs = core.seeded_order(jobs, seed)
    jobs.append(("ids", tier))
    viols: List[Violation] = []
    n = nt = 0
    for o in core.pmap_chunks(_worker, jobs, chunk=1):
        n += o["n"]
        nt += o["nontrivial"]
        for sig, msg, case in o["viol"]:
            viols.append(Violation(sig, msg, case))
    cov = {
        "evaluations": n, "distinct_nontrivial": nt,
        "rule": "3 pipelines (plain, two-parameter, sweep reading its variable from the run context; each with a probe, a conditional failure "
                "and a sink file named after a run-space key) x compatible run spaces (zip, two blocks, product, per-run sweep domain, csv "
                "source) x run counts x failing run at every index (quick: none/first/last) x file/dir output; every run compared with a "
                "standalone `semantiva run --context`; identity part: inspect vs trace spec id, cosmetic rewrites, every single-point plan "
                "mutation, block order, launch-id options, attempts, inputs id under mtime / content change. evaluations = CLI invocations",
        "launch_cases": len(jobs) - 1, "samples": [{"pipe": "sweep", "rs": run_spaces(1, 3)["sweepctx"]}], "exhaustive": True,
    }
    return Result("exploration", cov, viols, [
        "CLI driven in-process (semantiva.cli.main); gc.collect() after main() plays the role of interpreter exit for file finalisation",
        "volatile fields and the run-space foreign keys are removed before comparing a launch's run with the standalone run",
    ])


def replay(case) -> List[Violation]:
    harness.quiet()
    scratch = harness.enter_scratch()
    if case["kind"] == "ids":
        _, v = judge_ids(scratch, "quick")
        return [Violation(s, m, c) for s, m, c in v if c["rs"] == case["rs"] and c["pipe"] == case["pipe"]]
    v = judge_launch(case["pipe"], case["rs"], case["nruns"], case["fail_at"], case["mode"], scratch)
    return [Violation(s, m, c) for s, m, c in v]


# ---------------------------------------------------------------------------------------------
# environment grid (mc/envgrid.py): a launch equals its standalone runs, and the run-space spec id is the same, in every process

ENV_SKIP = {"warnings-as-errors": "`semantiva inspect` goes through semantiva.inspection.build(), which announces its own deprecation with a "
                                  "DeprecationWarning; a host that asks for warnings to be fatal gets exit 3 from inspect on the unchanged tree - "
                                  "that is the host's request being honoured, not a run-space identity changing"}


def env_cases(tier: str):
    out = [{"kind": "launch", "pipe": pipe, "rs": rsname, "nruns": 3, "fail_at": fa, "mode": mode}
           for pipe, rsname, fa, mode in [("plain", "zip", None, "file"), ("plain", "csv", 1, "dir"), ("two", "product", 0, "file"),
                                          ("plain", "two-blocks", 2, "dir"), ("sweep", "sweepctx", None, "file"), ("plain", "unicode", None, "file")]
           if rsname in COMPAT.get(pipe, [])]
    out += [{"kind": "ids", "pipe": pipe, "rs": rsname} for pipe, rsname in [("plain", "zip"), ("plain", "csv"), ("two", "product"), ("plain", "deep"), ("plain", "unicode")]]
    return out


def env_observe(case):
    from mc import envgrid

    scratch = envgrid.scratch()
    if case["kind"] == "launch":
        v = judge_launch(case["pipe"], case["rs"], case["nruns"], case["fail_at"], case["mode"], scratch)
        return envgrid.norm({"judged": sorted({sig for sig, _, _ in v})}, scratch)
    rs = run_spaces(None, 3)[case["rs"]]
    st, cfg, res = launch_ids(case["pipe"], rs, scratch, ["--run-space-idempotency-key", "k1"])
    st2, _, _ = launch_ids(case["pipe"], rs, scratch, ["--run-space-idempotency-key", "k1"])
    if st is None or st2 is None:
        return {"launch": "no run_space_start", "exit": res.code}
    return envgrid.norm({"spec_id": st.get("run_space_spec_id"), "planned": st.get("run_space_planned_run_count"), "combine": st.get("run_space_combine"),
                         "keyed_launch_id_reproducible": st.get("run_space_launch_id") == st2.get("run_space_launch_id"),
                         "inputs_id_reproducible": st.get("run_space_inputs_id") == st2.get("run_space_inputs_id"),
                         "inspect_spec_id": inspect_spec_id(cfg, scratch)}, scratch)
