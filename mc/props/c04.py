"""C04 — configuration identities are pure functions of configuration meaning.

Every meaning-preserving rewrite (validated by re-loading) of every configuration must leave node UUIDs,
pipeline id, semantic id, config id, node semantic ids and the whole inspection payload unchanged; the same
identities must come out of fresh processes under different hash seeds, working directories, wall-clock
instants and prior histories, and out of the three paths (inspection payload, Pipeline construction,
pipeline_start of a traced run) and `semantiva inspect`.
"""
from __future__ import annotations

import copy
import itertools
import json
import os
import re
import subprocess
import sys
import tempfile
from typing import Any, Dict, List, Optional, Tuple

import yaml

from mc import core, harness, idconfigs, yamlrw
from mc.core import Result, Violation

HIST_OPS = ["inspectB", "constructB", "runB", "runA", "inspectA"]


def ids_inprocess(raw: dict) -> dict:
    """Identities through the inspection payload and Pipeline construction (no execution)."""
    from semantiva.configurations.load_pipeline_from_yaml import parse_pipeline_config
    from semantiva.inspection import build_inspection_payload
    from semantiva.pipeline import Pipeline
    from semantiva.pipeline.graph_builder import compute_pipeline_id

    cfg = parse_pipeline_config(raw)  # loads the extensions the configuration names
    payload = build_inspection_payload(raw)
    p = Pipeline(cfg.nodes)
    return {"payload_json": json.dumps(payload, sort_keys=True, separators=(",", ":"), default=repr),
            "node_uuids": [n["node_uuid"] for n in p.canonical_spec["nodes"]],
            "pipeline_id": compute_pipeline_id(p.canonical_spec)}


def diff_ids(a: dict, b: dict) -> Optional[str]:
    for k in ("node_uuids", "pipeline_id"):
        if a[k] != b[k]:
            return f"{k}: {a[k]} vs {b[k]}"
    if a["payload_json"] != b["payload_json"]:
        pa, pb = json.loads(a["payload_json"]), json.loads(b["payload_json"])
        for k in ("semantic_id", "config_id"):
            if pa["identity"][k] != pb["identity"][k]:
                return f"identity.{k}: {pa['identity'][k]} vs {pb['identity'][k]}"
        if pa["identity"].get("run_space") != pb["identity"].get("run_space"):
            return f"identity.run_space: {pa['identity'].get('run_space')} vs {pb['identity'].get('run_space')}"
        if pa["required_context_keys"] != pb["required_context_keys"]:
            return f"required_context_keys: {pa['required_context_keys']} vs {pb['required_context_keys']}"
        return "inspection payload differs (pipeline_spec_canonical)"
    return None


def expr_paths(cfg: dict) -> List[Tuple[yamlrw.Path, str]]:
    out = []
    for i, node in enumerate(cfg["pipeline"]["nodes"]):
        ps = (node.get("derive") or {}).get("parameter_sweep") or {}
        for name, e in (ps.get("parameters") or {}).items():
            if isinstance(e, str):
                out.append((("pipeline", "nodes", i, "derive", "parameter_sweep", "parameters", name), e))
    return out


def _worker_rewrites(chunk):
    harness.quiet()
    harness.enter_scratch()
    out = {"n": 0, "viol": [], "kinds": {}, "distinct": set()}
    for ci, cfg, tier in chunk:
        base = ids_inprocess(copy.deepcopy(cfg))
        out["distinct"].add(base["payload_json"][:200])
        variants: List[Tuple[str, dict]] = []
        for label, text in yamlrw.rewrites(cfg, thorough=(tier == "thorough")):
            variants.append((label, yaml.safe_load(text)))
        for label, text in yamlrw.pair_rewrites(cfg, limit=(25 if tier == "quick" else 400)):
            variants.append(("pair:" + label, yaml.safe_load(text)))
        for path, e in expr_paths(cfg):
            for alt in yamlrw.expr_rearrangements(e, limit=(12 if tier == "quick" else 200)):
                variants.append((f"expr-rearranged[{alt}]@{'/'.join(map(str, path))}", yamlrw.set_(cfg, path, alt)))
        for label, raw in variants:
            out["n"] += 1
            kind = label.split("@")[0].split("[")[0]
            out["kinds"][kind] = out["kinds"].get(kind, 0) + 1
            try:
                got = ids_inprocess(raw)
            except Exception as exc:
                out["viol"].append(("rewrite-breaks-loading", f"config #{ci} rewrite {label}: {type(exc).__name__}: {exc}", {"kind": "rewrite", "config": cfg, "variant": raw, "label": label}))
                continue
            d = diff_ids(base, got)
            if d:
                out["viol"].append((f"identity-changes-under-rewrite|{kind}|{d.split(':')[0]}", f"config #{ci} rewrite {label}: {d}",
                                    {"kind": "rewrite", "config": cfg, "variant": raw, "label": label}))
        from mc.props.c01 import _housekeeping

        _housekeeping()
    out["distinct"] = list(out["distinct"])
    return out


# ---- fresh processes ------------------------------------------------------------------------------------------------

def probe(ypath: str, cwd: str, hashseed: str, history: str = "", other: Optional[str] = None, epoch: Optional[float] = None,
          no_run: bool = False) -> dict:
    env = dict(os.environ)
    env["PYTHONHASHSEED"] = hashseed
    env["VERIF_PROBE_CWD"] = cwd
    argv = [sys.executable, "-m", "mc.idprobe", ypath]
    if history:
        argv += ["--history", history]
    if other:
        argv += ["--other", other]
    if epoch is not None:
        argv += ["--fake-epoch", str(epoch)]
    if no_run:
        argv.append("--no-run")
    p = subprocess.run(argv, env=env, capture_output=True, text=True, timeout=300)
    if p.returncode != 0:
        raise RuntimeError(f"idprobe failed: {p.stderr[-800:]}")
    return json.loads(p.stdout.strip().splitlines()[-1])


def inspect_stdout_ids(ypath: str, cwd: str, hashseed: str) -> dict:
    env = dict(os.environ)
    env["PYTHONHASHSEED"] = hashseed
    p = subprocess.run([sys.executable, "-m", "semantiva.cli", "inspect", ypath, "--extended"], cwd=cwd, env=env, capture_output=True, text=True, timeout=300)
    out = p.stdout
    m = {"semantic_id": re.search(r"Semantic ID:\s+(\S+)", out), "config_id": re.search(r"Config ID:\s+(\S+)", out),
         "run_space": re.search(r"Run-Space Config ID:\s+(\S+)", out)}
    ids = {k: (v.group(1) if v else None) for k, v in m.items()}
    if ids["run_space"] in ("none", "None"):
        ids["run_space"] = None
    ids["uuids"] = re.findall(r"- UUID: (\S+)", out)
    ids["node_semantic_ids"] = re.findall(r"- Node Semantic ID: (\S+)", out)
    ids["required"] = (re.search(r"Required Context Keys: (.*)", out) or [None, ""])[1].strip()
    ids["exit"] = p.returncode
    return ids


def consistency(res: dict) -> Optional[str]:
    """inspection payload == construction == pipeline_start of the traced run."""
    pl = res["payload"]
    uu = [n["uuid"] for n in pl["pipeline_spec_canonical"]["nodes"]]
    if uu != res["construct"]["node_uuids"]:
        return f"node UUIDs: payload {uu} vs Pipeline construction {res['construct']['node_uuids']}"
    tr = res.get("trace")
    if tr:
        if tr["node_uuids"] != uu:
            return f"node UUIDs: payload {uu} vs pipeline_start {tr['node_uuids']}"
        if tr["pipeline_id"] != res["construct"]["pipeline_id"]:
            return f"pipeline_id: construction {res['construct']['pipeline_id']} vs pipeline_start {tr['pipeline_id']}"
        if tr["semantic_id"] != pl["identity"]["semantic_id"]:
            return f"semantic_id: inspect {pl['identity']['semantic_id']} vs pipeline_start.meta {tr['semantic_id']}"
        if tr["config_id"] != pl["identity"]["config_id"]:
            return f"config_id: inspect {pl['identity']['config_id']} vs pipeline_start.meta {tr['config_id']}"
        want = {n["uuid"]: n["node_semantic_id"] for n in pl["pipeline_spec_canonical"]["nodes"]}
        if tr["node_semantic_ids"] != want:
            return f"node_semantic_ids: inspect {want} vs pipeline_start.meta {tr['node_semantic_ids']}"
    return None


def _worker_procs(chunk):
    out = {"n": 0, "viol": [], "with_trace": 0}
    for job in chunk:
        ci, cfg, other_cfg, combos = job
        d = tempfile.mkdtemp(prefix="verif_c04_")
        try:
            idconfigs.write_support_files(d)
            ya = os.path.join(d, "a.yaml")
            yb = os.path.join(d, "b.yaml")
            with open(ya, "w") as f:
                f.write(yamlrw.emit(cfg))
            with open(yb, "w") as f:
                f.write(yamlrw.emit(other_cfg))
            base = probe(ya, d, "0")
            out["n"] += 1
            c = consistency(base)
            if c:
                out["viol"].append((f"paths-disagree|{c.split(':')[0]}", f"config #{ci}: {c}", {"kind": "paths", "config": cfg}))
            if base.get("trace"):
                out["with_trace"] += 1
            ins = inspect_stdout_ids(ya, d, "0")
            out["n"] += 1
            pl = base["payload"]
            exp_rs = (pl["identity"].get("run_space") or {}).get("spec_id")
            if ins["semantic_id"] != pl["identity"]["semantic_id"] or ins["config_id"] != pl["identity"]["config_id"] or ins["run_space"] != exp_rs \
                    or ins["uuids"] != [n["uuid"] for n in pl["pipeline_spec_canonical"]["nodes"]]:
                out["viol"].append(("inspect-stdout-differs-from-payload", f"config #{ci}: semantiva inspect printed {ins}, payload identity {pl['identity']}",
                                    {"kind": "paths", "config": cfg}))
            for hashseed, cwd_kind, epoch, hist in combos:
                cwd = d if cwd_kind == "scratch" else "/"
                res = probe(ya, cwd, hashseed, hist, yb, epoch)
                out["n"] += 1
                for k in ("payload_json", "construct", "trace"):
                    if res.get(k) != base.get(k):
                        what = k
                        detail = ""
                        if k == "trace" and res.get("trace") and base.get("trace"):
                            detail = "; ".join(f"{f}: {base['trace'][f]} vs {res['trace'][f]}" for f in base["trace"] if base["trace"][f] != res["trace"][f])
                        out["viol"].append((f"identity-depends-on-environment|{what}",
                                            f"config #{ci}: {what} differs in a fresh process with PYTHONHASHSEED={hashseed} cwd={cwd_kind} epoch={epoch} history=[{hist}] {detail[:300]}",
                                            {"kind": "env", "config": cfg, "other": other_cfg, "hashseed": hashseed, "cwd": cwd_kind, "epoch": epoch, "history": hist}))
                        break
                c = consistency(res)
                if c:
                    out["viol"].append((f"paths-disagree|{c.split(':')[0]}", f"config #{ci} history=[{hist}]: {c}", {"kind": "paths", "config": cfg}))
        finally:
            import shutil

            shutil.rmtree(d, ignore_errors=True)
    return out


def type_twin(cfg: dict) -> Optional[dict]:
    """The configuration with every integer-valued float in node parameters and sweep value lists written as an int (and ints as
    floats): == to the original value by value, another configuration all the same.  None if nothing changes."""
    def tw(x):
        if isinstance(x, bool):
            return x
        if isinstance(x, float) and x == x and abs(x) < 1e15 and x.is_integer():
            return int(x)
        if isinstance(x, int):
            return float(x)
        if isinstance(x, list):
            return [tw(v) for v in x]
        if isinstance(x, dict):
            return {k: tw(v) for k, v in x.items()}
        return x

    out = copy.deepcopy(cfg)
    changed = False
    for node in out["pipeline"]["nodes"]:
        if isinstance(node.get("parameters"), dict):
            new = tw(node["parameters"])
            changed |= json.dumps(new) != json.dumps(node["parameters"])
            node["parameters"] = new
        sw = (node.get("derive") or {}).get("parameter_sweep")
        if sw:
            for var, spec in sw.get("variables", {}).items():
                if isinstance(spec, dict) and "values" in spec:
                    new = tw(spec["values"])
                    changed |= json.dumps(new) != json.dumps(spec["values"])
                    spec["values"] = new
                elif isinstance(spec, list):
                    new = tw(spec)
                    changed |= json.dumps(new) != json.dumps(spec)
                    sw["variables"][var] = new
    return out if changed else None


def check(tier: str, seed: int) -> Result:
    configs = idconfigs.base_configs(tier)
    viols: List[Violation] = []
    # A. rewrites, in-process
    jobs = [(i, c, tier) for i, c in enumerate(configs)]
    n_rw = 0
    kinds: Dict[str, int] = {}
    distinct = set()
    for o in core.pmap_chunks(_worker_rewrites, core.seeded_order(jobs, seed), chunk=1, maxtasks=8):
        n_rw += o["n"]
        distinct.update(o["distinct"])
        for k, v in o["kinds"].items():
            kinds[k] = kinds.get(k, 0) + v
        for sig, msg, case in o["viol"]:
            viols.append(Violation(sig, msg, case))
    # B. fresh processes x hash seeds x cwd x clock x histories
    seeds = ["0", "1", "2", str(1000 + seed)] if tier == "thorough" else ["1", str(1000 + seed)]
    if tier == "quick":
        hists = [""] + HIST_OPS
        special = {i for i, c in enumerate(configs) if any("parameters" in nd and not nd["parameters"] for nd in c["pipeline"]["nodes"])
                   or sum(1 for nd in c["pipeline"]["nodes"] if "derive" in nd) >= 2}
        pick = sorted(set(range(0, len(configs), 3)) | special)
    else:
        hists = [""] + HIST_OPS + [f"{a},{b}" for a in HIST_OPS for b in HIST_OPS]
        pick = list(range(len(configs))) if len(configs) <= 40 else list(range(0, len(configs), max(1, len(configs) // 40)))
    pjobs = []
    for i in pick:
        combos = []
        for k, (hs, h) in enumerate(itertools.product(seeds, hists)):
            if tier == "quick" and k % 2 == 1 and h:
                continue
            combos.append((hs, "scratch" if k % 2 == 0 else "root", (1.7e9 if k % 3 == 0 else 1.7e9 + 365 * 86400 if k % 3 == 1 else None), h))
        pjobs.append((i, configs[i], configs[(i + 5) % len(configs)], combos))
    # B = the type twin of A (2 for 2.0 ...): whatever B leaves behind in the process must not be taken for A's
    for i, c in enumerate(configs):
        tw = type_twin(c)
        if tw is not None and (tier == "thorough" or i % 2 == 0):
            pjobs.append((i, c, tw, [("1", "scratch", None, h) for h in HIST_OPS if h.endswith("B")]))
    n_proc = with_trace = 0
    for o in core.pmap_chunks(_worker_procs, pjobs, chunk=1):
        n_proc += o["n"]
        with_trace += o["with_trace"]
        for sig, msg, case in o["viol"]:
            viols.append(Violation(sig, msg, case))
    cov = {
        "evaluations": n_rw + n_proc, "distinct_nontrivial": len(distinct) + len(kinds),
        "rule": "%d configurations (every node kind, nested parameters, sweeps with 1-2 variables of every domain kind, run-space blocks) x every "
                "single meaning-preserving rewrite at every applicable position (key order, flow/block, quoting, anchors, comments/indent, scalar "
                "spellings) + pairs + every permutation/bracketing of +/* chains in sweep expressions, each validated by re-loading; a subset in "
                "fresh processes x PYTHONHASHSEED x cwd x virtual clock x histories of length <= %d over {inspect B, construct B, run B, run A, "
                "inspect A}; three paths + `semantiva inspect` stdout compared. distinct_nontrivial = distinct configurations + rewrite kinds exercised"
                % (len(configs), 1 if tier == "quick" else 2),
        "rewrites_checked": n_rw, "rewrite_kinds": kinds, "fresh_process_probes": n_proc, "configs_with_traced_run": with_trace,
        "samples": [{"config": configs[8]}], "exhaustive": True,
    }
    return Result("exploration", cov, viols, [
        "integer <-> float respellings (1 vs 1.0) are not meaning-preserving and not demanded",
        "hash seeds / cwd / clock are combined with histories by rotation, not as a full product",
    ])


def replay(case) -> List[Violation]:
    harness.quiet()
    if case["kind"] == "rewrite":
        base, got = ids_inprocess(copy.deepcopy(case["config"])), ids_inprocess(copy.deepcopy(case["variant"]))
        d = diff_ids(base, got)
        return [Violation("identity-changes-under-rewrite", d, case)] if d else []
    if case["kind"] == "env":
        o = _worker_procs([(0, case["config"], case["other"], [(case["hashseed"], case["cwd"], case["epoch"], case["history"])])])
    else:
        o = _worker_procs([(0, case["config"], case["config"], [])])
    return [Violation(s, m, c) for s, m, c in o["viol"]]


# ---------------------------------------------------------------------------------------------
# environment grid (mc/envgrid.py): the property names processes, hash seeds, working directories and wall-clock time itself;
# the grid adds time zones, locales, python -O, threads, forked children, host logging / warnings / gc settings and import order

def env_cases(tier: str):
    from mc import envgrid

    cfgs = idconfigs.base_configs("quick")
    return [{"config": c} for c in envgrid.pick(cfgs, 60 if tier == "quick" else len(cfgs))]


def env_observe(case):
    from mc import envgrid

    envgrid.scratch()
    import copy as _copy

    return ids_inprocess(_copy.deepcopy(case["config"]))
