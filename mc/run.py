"""./check <ID> [--tier quick|thorough] [--replay file] — dispatch to mc.props.<id>."""
from __future__ import annotations

import argparse
import importlib
import json
import os
import sys
import time
import traceback

from mc import core


def main(argv=None) -> int:
    """All scratch space of a run (worker scratch directories, child processes, tempfile users inside semantiva) lives under one
    directory that is removed when the run ends, however it ends."""
    import shutil
    import tempfile

    core._stack_dump_on_usr1()
    root = tempfile.mkdtemp(prefix="verif_run_")
    os.environ["TMPDIR"] = root
    tempfile.tempdir = root
    cwd = os.getcwd()
    try:
        return _main(argv)
    finally:
        try:
            os.chdir(cwd)
        except OSError:
            os.chdir("/")
        shutil.rmtree(root, ignore_errors=True)


def _main(argv=None) -> int:
    ap = argparse.ArgumentParser()
    ap.add_argument("prop")
    ap.add_argument("--tier", default=os.environ.get("VERIF_TIER", "quick"), choices=["quick", "thorough"])
    ap.add_argument("--replay", default=None)
    ap.add_argument("--seed", type=int, default=int(os.environ.get("VERIF_SEED", "0") or 0))
    args = ap.parse_args(argv)
    prop = args.prop.upper()

    import semantiva

    root = os.path.realpath(core.REPO)
    if not os.path.realpath(semantiva.__file__).startswith(root + os.sep):
        print(f"refusing to run: semantiva imported from {semantiva.__file__}, expected under {root}")
        return 2

    if prop == "SELFTEST":
        import pkgutil
        import mc.props

        n = 0
        for m in pkgutil.iter_modules(mc.props.__path__):
            importlib.import_module(f"mc.props.{m.name}")
            n += 1
        print(f"selftest ok: semantiva from {semantiva.__file__}; {n} property modules import")
        return 0
    mod = importlib.import_module(f"mc.props.{prop.lower()}")
    t0 = time.time()
    if args.replay:
        with open(args.replay) as f:
            doc = json.load(f)
        if isinstance(doc["case"], dict) and doc["case"].get("kind") == "envgrid":
            from mc import envgrid

            vs = envgrid.replay(mod, doc["case"])
        else:
            vs = mod.replay(doc["case"])
        for v in vs:
            print(f"  violation sig={v.sig}: {v.msg}"[:4000])
        if vs:
            print(f"VIOLATION property={prop} replay={args.replay}")
            return 1
        print(f"[{prop}] replay: property holds on this case")
        return 0
    try:
        res = mod.check(args.tier, args.seed)
        if hasattr(mod, "env_cases"):
            from mc import envgrid

            cov, vs = envgrid.run(mod, args.tier)
            for v in vs:
                v.case["tier"] = args.tier
            res.coverage["environment_grid"] = cov
            res.violations.extend(vs)
    except Exception:
        traceback.print_exc()
        print(f"[{prop}] harness error (not a verdict)")
        return 2
    return core.report(prop, args.tier, args.seed, res, time.time() - t0)


if __name__ == "__main__":
    sys.exit(main())
