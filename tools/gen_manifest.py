#!/usr/bin/env python3
"""Regenerate MANIFEST.json from the table below (kept in one place so it stays valid)."""
import json, os
HERE = os.path.dirname(os.path.dirname(os.path.abspath(__file__)))
CHECKS = {
 "C01": ("model_checking", "bounded-exhaustive enumeration of node programs x payloads x contexts; every trace of a reference dual-channel interpreter is replayed against the real Pipeline (plus prefix-differential runs)",
         "All node programs to length 2-3 over a 38-symbol component alphabet (every kind the property lists), reduced-alphabet programs of length 3-4 and all programs within 1-2 edits of four length-8 spines are run on every initial data kind and every subset of the context keys they can read; result data, context, failing node, exception class/identity, processor execution log and sink files must equal the reference interpreter's. Interactions like a probe key consumed later as a parameter or rename-after-delete are forced to occur by the shared key alphabet.",
         "reference interpreter mc/ref/interp.py (written from the docs); values outside the alphabet are not explored; programs longer than 4 only near the spines", "3 C01"),
 "C12": ("exploration", "bounded-exhaustive enumeration of expression trees grouped by implementation signature; exact polynomial normal form + complete integer grid as oracle",
         "Every expression tree of the stated alphabets up to 2-5 leaves, every permutation x bracketing of +/* chains over a 16-term operand pool, and every single-point mutant are enumerated; same signature must mean same exact value, AC-rearrangements must share a signature. Exhaustive to the bound, so a normaliser bug that needs a particular operand shape (unary minus, nested subtraction) is found if it shows within the bound.",
         "CPython ast; exact Fraction arithmetic; values outside the grid {-2..3} and expressions beyond the leaf bound are not explored", "3 C12"),
 "C11": ("exploration", "bounded-exhaustive enumeration of expression ASTs (every ast.expr class x every child position, depth 3) against a reference whitelist walk; audit hook during compile and evaluation",
         "Every expression AST up to depth 3 over every expression node class and operator class of the running interpreter (full product at depth 2, every class x every child position at depth 3) and an escape corpus embedded at 22 positions nested twice are pushed through ExpressionEvaluator.compile; whatever is accepted must pass an independent whitelist walk that visits every child position, a code-object name check and an audited evaluation. Exhaustive to the depth bound, so an unvisited child position is found by enumeration of positions, not of attacks.",
         "CPython ast / ast.unparse round trip; sys.addaudithook; codec-lookup imports of the whitelisted str() builtin (encodings.*) are not counted as an escape", "3 C11"),
 "C14": ("model_checking", "stateless preemption-bounded schedule exploration (CHESS style) of real threads on the real transport under a cooperative scheduler with line-level scheduling points",
         "All schedules of 8 small harnesses (2-3 publishers, 0-2 subscribers, new/existing channels, exact and wildcard patterns) with at most 1-2 (thorough 2-3) preemptions are executed on the real InMemorySemantivaTransport; each complete schedule is checked for exactly-once delivery, per-publisher channel order and pattern routing, and deadlock. The losing interleaving inside lazy channel creation needs one preemption in a window of a few bytecodes - enumeration hits it on every run, a free-running test essentially never.",
         "CPython GIL; line-granularity switching; threading.Lock replaced by a cooperative lock inside in_memory.py for the duration of the check", "3 C14"),
 "C13": ("model_checking", "explicit-state search over the subset lattice of real trace records with the real TraceAggregator.ingest as transition function (diamond property), plus every crash prefix against a reference verdict",
         "Traces are captured from the real runtime (single runs failing at each node kind, launches with a failing run, file and directory mode). Every prefix is judged against the documented verdict of the record set; every subset of up to 9 (thorough 12) records is reached through every possible last-ingested record, with and without an intermediate finalize, and all incoming edges must produce the same canonical verdict state - which, by induction on subset size, covers every permutation and every k-way file interleaving without sampling.",
         "traces longer than the bound are covered through lifecycle records plus chosen SER subsets; verdict for SER-only subsets (no crash can produce them) is not demanded", "3 C13"),
 "C08": ("model_checking", "exhaustive enumeration of run_space specifications over a block-template menu against a lazy reference expander; cap promptness by tracemalloc peak and a child process under RLIMIT_AS",
         "Every combination of inline-context templates (sorted/unsorted keys, empty lists, mismatched lengths), source templates (csv/json/yaml/ndjson, select, rename incl. collisions, missing file/column, source mode), block modes, second/third blocks (incl. duplicate keys) and combine modes, each with max_runs in {0,1,n-1,n,n+1,1000}, goes through the YAML loader and expand_run_space and must give the reference's ordered run list or rejection class. Specs expanding to 10^4..10^30 runs must be rejected with the max-runs error within a memory budget that excludes materialisation.",
         "reference expander mc/ref/runspace.py; key-less blocks and a cap of 0 on an empty run space are outside the documented space; memory budget constant 200kB + 400B*(max_runs + list lengths)", "3 C08"),
 "C06": ("fault_enumeration", "exhaustive fault enumeration: every failure kind at every node index of all short programs x detail levels x output modes, judged by a trace-grammar automaton and the package's JSON schemas",
         "The program alphabet holds one symbol per failure kind the property lists (processor exception, unresolvable parameter, type gate, undeclared context write, unknown parameter, probe without key, unresolvable processor, KeyboardInterrupt); all programs to length 2-3 (thorough 3-4) put each of them at every node index. Each traced run must leave pipeline_start, one SER per started node in canonical order with canonical upstream edges and correct statuses, exactly one pipeline_end whose status matches the call, schema-valid lines, shared ids, the original exception object, and a flushed and closed file (checked through /proc/self/fd).",
         "jsonschema Draft 2020-12 with the package's registry; RFC 3339 checked by the harness; reference failure points from mc/ref/interp.py (bound to the implementation by C01)", "3 C06"),
 "C10": ("exploration", "bounded-exhaustive differential execution: every program run untraced and traced at each detail level; enumerated A-B-A histories compared modulo volatile fields",
         "All programs of length 1-2 (thorough 1-3) over a 20-symbol alphabet incl. every failure kind, on empty and full contexts, are executed without a driver and with a JSONL driver at the detail levels; data, context, exception class/message/identity, failing node and processor log must coincide. Every (A, B) pair of a 7x6 menu (sweeps, failing and unconstructible pipelines) is run as A, B, A through the same Pipeline object and through a fresh one; the two traces of A must be equal after removing run id, timestamps, durations and seq.",
         "volatile-field list as documented; programs longer than the bound and payloads outside the alphabet are not explored", "3 C10"),
 "C07": ("model_checking", "bounded-exhaustive program enumeration; every SER of every traced run is compared field by field with a reference execution account (resolution table, context diffs, states, processor log) under four host time zones",
         "For all programs of length 1-2 (thorough 1-3) over a 20-symbol alphabet and every parameter placement (none / all keys / each key alone, i.e. including defaults overridden by context), each SER's created/updated keys, processor.ref, parameters and parameter_sources, required-keys / input-type / output-type / context-writes checks, digest chaining and digest-as-function-of-content (also across worker processes), durations and timestamps (RFC 3339, true UTC instant inside the harness's wall-clock bracket, non-decreasing) are checked against the reference interpreter's account of the same run, with the host TZ switched between UTC, +09:00, -08:00 and +05:45.",
         "reference account mc/ref/interp.py (bound to the implementation by C01); wall-clock bracket +-2 ms; output_type_ok not judged on a failing node's SER", "3 C07"),
 "C02": ("model_checking", "the inspection is the model: for every enumerated program it accepts, each fact it asserts (required keys, created/suppressed keys, parameter origins, unknown parameters) is replayed against real executions and the reference interpreter",
         "All programs to length 2-3 (thorough 3-4) over the alphabet without deliberately failing processors plus near-spine programs of length 8; every accepted one is executed with exactly the reported required keys and with every superset by 1 (thorough 2) further keys: no unresolvable-parameter, deleted-key, unknown-parameter or type-gate failure may occur; with context == required keys, per-node created/suppressed keys and each parameter's origin channel and origin node must match the run. Use-before-create, create-and-require, delete-then-require and type changes across context-only nodes all occur within the bound.",
         "reference interpreter bound to the implementation by C01; overwrite counts as created; non-flow failures (processor arithmetic, payload-source collision) are outside the claim", "3 C02"),
 "C03": ("model_checking", "exhaustive enumeration of sweep specifications against a reference sweep enumerator (closed-form ranges, sorted product / zip / broadcast, computed > node > context > default merge, own expression evaluator)",
         "1-3 variables declared in non-sorted order over range (linear/log, with/without endpoint, 1 and 3 steps), explicit sequences (mapping and YAML-list form, lengths 1-3) and from_context domains; both modes, broadcast on/off; expressions incl. none, functions and multi-variable forms; source, operation and probe wrappers; every placement of the non-swept parameter; alone and inside surrounding pipelines (sum, slicer, probe); precedence and rejection cases. Element count, order and values, the typed collection / probe list, data pass-through and every <var>_values key must equal the reference.",
         "reference mc/ref/sweep.py written from docs/source/collection_modifiers.rst; relative tolerance 1e-9 on range values", "3 C03"),
 "C04": ("exploration", "exhaustive application of validated meaning-preserving rewrites at every position of every configuration (in-process), plus fresh-process probes over hash seeds x cwd x virtual clock x enumerated prior histories; three identity paths and CLI stdout compared",
         "Every configuration of a set covering all node kinds, nested parameters, 1-2-variable sweeps of every domain kind and run-space blocks is rewritten in every single cosmetic way at every applicable position (mapping key order, flow/block, quoting, anchors/aliases, comments/indentation, equivalent scalar spellings, all permutations and bracketings of +/* chains in sweep expressions) and in pairs; each rewrite is validated by re-loading to the identical structure, then node UUIDs, pipeline id and the byte-exact inspection payload must be unchanged. Fresh interpreters with different PYTHONHASHSEED, cwd, a virtual clock a year apart and all histories of length <=1 (thorough <=2) over {inspect B, construct B, run B, run A, inspect A} must reproduce the same identities; inspection payload, Pipeline construction, pipeline_start and 'semantiva inspect' stdout must agree.",
         "PyYAML (YAML 1.1) scalar resolution defines 'equivalent spelling'; 1 vs 1.0 is not treated as equivalent; environment factors are rotated against histories rather than fully crossed", "3 C04"),
 "C05": ("exploration", "exhaustive single-point semantic mutation of every configuration, one operator per identity-bearing field at every applicable position; ID inequality and UUID distinctness as oracle",
         "For every configuration: change the processor of each node, every parameter leaf / key / list element at any depth, delete / duplicate / swap nodes, and for sweeps the wrapped processor, each expression (constant, variable, operator, function, swapped operands of non-commutative operators; grid-equal mutants discarded), every field of every variable domain incl. each element of each sequence (also the middle of a 9-element one), mode, broadcast and collection. Each mutant must change semantic ID, config ID and the affected node's UUID or node semantic ID; all node UUIDs in every pipeline must be pairwise distinct.",
         "context_key is not an identity-bearing field per the property; expression equivalence decided on the integer grid {-2..3}^3", "3 C05"),
 "C09": ("exploration", "enumerated (pipeline, run_space) launches through the real CLI with a failing run at every index; each run compared with a standalone CLI run of the same context; lifecycle grammar and ID relations checked under rewrites and single-point plan mutations",
         "Three pipelines (with probe, conditional failure, per-run sink file; one with a sweep whose domain comes from the run context) x five run-space shapes (zip, two blocks, product, per-run list values, csv source) x run counts x failing run at every index x file/directory output are launched through semantiva.cli.main. Runs must happen in plan order, each run's trace (minus volatile fields and run-space foreign keys) and sink output must equal a standalone 'semantiva run --context' of that run's context, the launch must be bracketed by exactly one run_space_start / run_space_end with truthful counts also on failure, every pipeline_start must carry launch id, attempt, 0-based index and context; the spec ID must equal the one 'semantiva inspect' prints, survive cosmetic rewrites, change under every single-point plan mutation and block reordering; idempotency-key launch ids must be reproducible and key/plan sensitive, generated ids distinct, explicit ids and attempts honoured, inputs id content- but not mtime-sensitive.",
         "CLI driven in-process; gc.collect() stands in for interpreter exit; volatile-field list as documented", "3 C09"),
 "C17": ("exploration", "exhaustive enumeration of CLI invocations (configurations x flag subsets x supplied/missing context x overrides x caps) through semantiva.cli.main; decision table from the CLI documentation plus the reference interpreter as oracle; absence of any artefact as the 'not executed' observation",
         "19 configurations (valid ones, a failing run at each index, and one per documented way of being invalid, incl. use-before-create and a type change hidden behind a context-only node) plus broken / missing files are run with every subset of {--validate, --dry-run, --run-space-dry-run}, every subset of the needed --context keys (plus extra / failure-marker keys), valid and unknown --set paths and --run-space-max-runs values. Whenever the exit code is a pre-flight class (1-3) or a no-execution flag is given, no processor may have run and no sink or trace file may exist; a run that the reference interpreter says cannot resolve its parameters or types must be rejected before anything executes; exit 0 must coincide with every planned run completing, a failing run gives 4, later runs do not start.",
         "decision table written from docs/source/cli.rst; under --validate run-space problems may or may not be reported; in-process CLI", "3 C17"),
}
NA = []
def main():
    checks = []
    allp = [json.loads(l)["id"] for l in open(os.path.join(HERE, "properties.jsonl")) if l.strip()]
    na = list(NA) + [{"property_id": p, "reason": "check not built yet in this round (work in progress; see DESIGN.md section 3 for the planned design)"}
                     for p in allp if p not in CHECKS and p not in [n["property_id"] for n in NA]]
    for pid in sorted(CHECKS):
        level, tech, text, note, ref = CHECKS[pid]
        checks.append({
            "property_id": pid,
            "quick_cmd": f"./check {pid} --tier quick",
            "thorough_cmd": f"./check {pid} --tier thorough",
            "evidence_file": f"/verif/evidence/{pid}.json",
            "replay_cmd_template": f"./check {pid} --replay {{path}}",
            "engine": "mc",
            "level_claimed": {"category": level, "text": text, "design_ref": f"DESIGN.md section {ref}"},
            "level_note": note,
            "technique": tech,
        })
    hooks_commits = []
    hc = os.path.join(HERE, "hook_commits.txt")
    if os.path.exists(hc):
        hooks_commits = [l.split()[0] for l in open(hc) if l.strip() and not l.startswith("#")]
    m = {
        "version": 1,
        "setup_cmd": "/venv/bin/python -m compileall -q mc verif_lib tools >/dev/null && ./check selftest",
        "hooks": {
            "guard": "SEMANTIVA_VERIF",
            "enable": "no build step: /venv imports /repo's working tree (editable install); ./check exports SEMANTIVA_VERIF=1. No hook code is needed in /repo (all observation is done from the harness side).",
            "baseline_off_cmd": "cd /repo && /venv/bin/python -m pytest -ra -q -p no:cacheprovider --timeout=900 --continue-on-collection-errors",
            "source_commits": hooks_commits,
            "add_only": True,
        },
        "engines": [{"name": "mc", "path": "/verif/mc", "serves_properties": sorted(CHECKS),
                     "kind_free_text": "hand-written Python explorers: bounded-exhaustive program/input enumeration against reference models, explicit-state search over real transition functions, preemption-bounded stateless schedule exploration of real threads"}],
        "checks": checks,
        "notes": "All checks drive the implementation in /repo's working tree directly (no external model). See DESIGN.md.",
        "not_applicable": na,
    }
    with open(os.path.join(HERE, "MANIFEST.json"), "w") as f:
        json.dump(m, f, indent=1); f.write("\n")
if __name__ == "__main__":
    main()
