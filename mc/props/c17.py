"""C17 — the CLI never executes a configuration its pre-flight checks reject.

Enumerates configurations (valid, and invalid in each documented way) x CLI flag subsets x supplied / missing
context keys x a failing run at each index, through semantiva.cli.main in-process; a decision table written
from docs/source/cli.rst plus the reference interpreter (true need of context keys) is the oracle; "not
executed" means: no processor ran, no sink file, no trace file.
"""
from __future__ import annotations

import copy
import itertools
import os
from typing import Any, Dict, List, Optional, Tuple

from mc import cli, core, gen, harness
from mc.core import Result, Violation
from mc.ref import interp
from mc.ref import runspace as rsref

FAIL = 666.0
EXIT_OK, EXIT_FILE, EXIT_CONFIG, EXIT_RUNTIME = 0, 2, 3, 4
TMPL = 'template:"out_{value}.txt":path'


def nodes(*syms, extra=None):
    out = [copy.deepcopy(gen.SYMBOLS[s]["node"]) if isinstance(s, str) else copy.deepcopy(s) for s in syms]
    return out


VALID_TAIL = [{"processor": TMPL}, {"processor": "VTxtSink"}]

# name -> (nodes, run_space or None, invalid-reason or None, program symbols for the reference (or None))
def configs() -> Dict[str, dict]:
    c: Dict[str, dict] = {}

    def add(name, nds, rs=None, invalid=None, needs=("value",)):
        c[name] = {"nodes": nds, "rs": rs, "invalid": invalid, "needs": list(needs)}

    base = nodes("src_ctx", "failif", "probe_r") + VALID_TAIL
    add("valid", base)
    add("valid-two", nodes("src_ctx", "two", "failif") + VALID_TAIL, needs=("value", "factor"))
    add("valid-rs", base, {"blocks": [{"mode": "by_position", "context": {"value": [1.0, 2.0, 3.0], "a": [0.0, 0.0, 0.0]}}]}, needs=())
    for i in range(3):
        a = [FAIL if j == i else 0.0 for j in range(3)]
        add(f"rs-fail-at-{i}", base, {"blocks": [{"mode": "by_position", "context": {"value": [1.0, 2.0, 3.0], "a": a}}]}, needs=())
    # a key given once with --context and consumed destructively by every run of the run space
    add("rs-consume", nodes("src_ctx", "failif", "ren_tagsrc") + VALID_TAIL, {"blocks": [{"mode": "by_position", "context": {"value": [1.0, 2.0, 3.0], "a": [0.0, 0.0, 0.0]}}]},
        needs=("tagsrc",))
    add("valid-kw-mix", nodes("src_ctx", "kwmix", "failif") + VALID_TAIL, needs=("value", "offset"))   # keyword-only parameter without a default
    add("use-before-create", nodes("src_ctx", "mul", "probe_factor") + VALID_TAIL, needs=("value", "factor"))
    add("delete-then-require", nodes("src_ctx", "probe_factor", "del_factor", "mul") + VALID_TAIL, invalid="config")
    add("unknown-processor", nodes("src_ctx", "unknown") + VALID_TAIL, invalid="config")
    add("unknown-parameter", nodes("src_ctx", "bogus") + VALID_TAIL, invalid="config")
    add("probe-without-key", nodes("src_ctx", "probe_nokey") + VALID_TAIL, invalid="config")
    add("type-adjacent", nodes("src_ctx", "sum") + VALID_TAIL, invalid="config")
    add("type-source-after-data", nodes("src_ctx", "mul3", "src") + VALID_TAIL, invalid="config")       # a source does not accept the data channel's float
    add("type-source-after-probe", nodes("src_ctx", "probe_r", "srcdef") + VALID_TAIL, invalid="config")
    add("type-across-context-node", nodes("src_ctx", "probe_r", "tmpl_a", "slice_mul") + VALID_TAIL, invalid="config")
    add("rs-length-mismatch", base, {"blocks": [{"mode": "by_position", "context": {"value": [1.0, 2.0], "a": [0.0]}}]}, invalid="runspace", needs=())
    add("rs-duplicate-keys", base, {"blocks": [{"mode": "by_position", "context": {"value": [1.0]}}, {"mode": "by_position", "context": {"value": [2.0]}}]}, invalid="config", needs=())
    add("rs-missing-source", base, {"blocks": [{"mode": "by_position", "source": {"format": "csv", "path": "nope.csv"}}]}, invalid="runspace", needs=())
    add("rs-cap-exceeded", base, {"max_runs": 2, "blocks": [{"mode": "by_position", "context": {"value": [1.0, 2.0, 3.0], "a": [0.0, 0.0, 0.0]}}]}, invalid="runspace", needs=())
    # cap vs a combinatorial source inside a by_position block: 2 rows -> 4 runs
    add("rs-source-combinatorial", nodes("src_ctx", "failif") + [{"processor": 'template:"out_{value}_{a}.txt":path'}, {"processor": "VTxtSink"}],
        {"blocks": [{"mode": "by_position", "source": {"format": "csv", "path": "va.csv", "mode": "combinatorial"}}]}, needs=())
    # beyond the small scope: a source file of 2.4 MB / 1200 rows against a cap of 1000 (the whole file counts, not its first megabyte)
    add("rs-big-csv-over-cap", base, {"max_runs": 1000, "blocks": [{"mode": "by_position", "source": {"format": "csv", "path": "big.csv", "select": ["value", "a"]}}]},
        invalid="runspace", needs=())
    add("rs-missing-key", nodes("src_ctx", "mul", "failif") + VALID_TAIL, {"blocks": [{"mode": "by_position", "context": {"value": [1.0, 2.0]}}]}, needs=("factor",))
    return c


RAW_FILES = {
    "yaml-error": "pipeline:\n  nodes: [\n    - processor: VSrc\n",
    "no-pipeline-nodes": "extensions: [verif_lib]\npipeline: {}\n",
    "top-level-list": "- a\n- b\n",
}


def artefacts(scratch: str) -> Dict[str, Any]:
    from verif_lib import components

    sinks = sorted(f for f in os.listdir(scratch) if f.startswith("out_"))
    traces = []
    for root, dirs, files in os.walk(scratch):
        rel = os.path.relpath(root, scratch)
        if rel.split(os.sep)[0] in ("tdir", "traces") or rel == ".":
            for f in files:
                if f.endswith(".jsonl") or rel != ".":
                    traces.append(os.path.normpath(os.path.join(rel, f)))
        if rel.split(os.sep)[0] in ("tdir", "traces") and not files and not dirs:
            traces.append(rel + os.sep)  # even an empty trace directory is a trace artefact
    return {"sinks": sinks, "traces": sorted(traces), "log": list(components.LOG)}


DECOY_RS = {"blocks": [{"mode": "by_position", "context": {"value": [77.0], "a": [0.0]}}]}  # must be ignored when --run-space-file is given


def invoke(cfg_name: str, spec: Optional[dict], raw: Optional[str], flags: List[str], ctx: Dict[str, Any], sets: List[str], cap: Optional[int], scratch: str,
           var: Optional[dict] = None):
    var = var or {}
    place, dry = var.get("place", "top"), var.get("dry", "none")
    flags = list(flags)
    sets = list(sets)
    harness.clear_dir(scratch)
    harness.reset_log()
    yp = os.path.join(scratch, "p.yaml")
    if raw is not None:
        with open(yp, "w") as f:
            f.write(raw)
    elif spec is not None:
        tmode = var.get("trace", "dir")
        cfg: Dict[str, Any] = {"extensions": ["verif_lib"], "pipeline": {"nodes": copy.deepcopy(spec["nodes"])}}
        if tmode == "dir":
            cfg["trace"] = {"driver": "jsonl", "output_path": os.path.join(scratch, "tdir")}
        elif tmode == "file":
            cfg["trace"] = {"driver": "jsonl", "output_path": os.path.join(scratch, "traces", "t.ser.jsonl")}
        elif tmode == "relative-file":
            cfg["trace"] = {"driver": "jsonl", "output_path": "traces/rel.ser.jsonl"}
        elif tmode == "cli-file":
            flags += ["--trace.driver", "jsonl", "--trace.output", os.path.join(scratch, "traces", "cli.ser.jsonl"), "--trace.option", "detail=all"]
        elif tmode == "cli-dir":
            flags += ["--trace.driver", "jsonl", "--trace.output", os.path.join(scratch, "tdir")]
        if spec["rs"] is not None:
            rs = copy.deepcopy(spec["rs"])
            if dry == "declared":
                rs["dry_run"] = True
            elif dry == "declared-false-then-set":
                rs["dry_run"] = False
                sets.append(("pipeline.run_space" if place == "nested" else "run_space") + ".dry_run=true")
            if place == "top":
                cfg["run_space"] = rs
            elif place == "nested":
                cfg["pipeline"]["run_space"] = rs
            else:
                cfg["run_space"] = copy.deepcopy(DECOY_RS)
                cli.write_yaml(os.path.join(scratch, "rs.yaml"), {"run_space": rs} if place == "file" else rs)
                flags += ["--run-space-file", os.path.join(scratch, "rs.yaml")]
        cli.write_yaml(yp, cfg)
        with open(os.path.join(scratch, "va.csv"), "w") as f:
            f.write("value,a\n1.0,0.0\n2.0,0.5\n")
        if cfg_name.startswith("rs-big"):
            with open(os.path.join(scratch, "big.csv"), "w") as f:
                f.write("value,a,pad\n")
                pad = "p" * 2000
                for i in range(1200):
                    f.write(f"{float(i + 1)},0.0,{pad}\n")
    else:
        yp = os.path.join(scratch, "does-not-exist.yaml")
    argv = ["run", yp, "-q", *flags]
    for k, v in ctx.items():
        argv += ["--context", f"{k}={v}"]
    for s in sets:
        argv += ["--set", s]
    if cap is not None:
        argv += ["--run-space-max-runs", str(cap)]
    res = cli.run_cli(argv)
    return res, artefacts(scratch)


def planned_runs(spec: dict, ctx: Dict[str, Any], cap: Optional[int]) -> Tuple[str, List[dict]]:
    """("ok", runs) | ("reject", []) | ("cap", [])"""
    rs = spec["rs"]
    if rs is None:
        return "ok", [dict(ctx)]
    rs2 = dict(rs)
    if cap is not None:
        rs2["max_runs"] = cap
    p = rsref.plan(rs2, {"nope.csv": None, "va.csv": {"value": [1.0, 2.0], "a": [0.0, 0.5]},
                         "big.csv": {"value": [float(i + 1) for i in range(1200)], "a": [0.0] * 1200, "pad": ["p"] * 1200}})
    if p[0] == "ok":
        return "ok", [{**ctx, **r} for r in p[2]()]
    return p[0], []


def ref_run(spec: dict, run_ctx: Dict[str, Any]) -> interp.Outcome:
    """Reference outcome of one run (only for configurations made of alphabet symbols + template + sink)."""
    prog = spec.get("prog")
    return prog


SYM_OF = None


def reference_outcome(nodes_: List[dict], ctx: Dict[str, Any]) -> Tuple[str, Optional[str]]:
    """Tiny reference for the C17 pipelines: ("ok"|"fail"|"construct", reason)."""
    # map nodes back to alphabet symbols; the two tail nodes are handled here
    global SYM_OF
    if SYM_OF is None:
        SYM_OF = {repr(sorted(gen.SYMBOLS[s]["node"].items(), key=str)): s for s in gen.SYMBOLS}
    prog = []
    for nd in nodes_[:-2]:
        prog.append(SYM_OF[repr(sorted(nd.items(), key=str))])
    out = interp.run(tuple(prog), ("N",), dict(ctx))
    if out.status != "ok":
        return out.status, out.reason
    c = out.ctx
    if "value" not in c:
        return "fail", "unresolvable"
    if out.data[0] != "F":
        return "fail", "type-gate"
    return "ok", None


def judge(cfg_name: str, spec: Optional[dict], raw: Optional[str], flags: List[str], ctx: Dict[str, Any], sets: List[str], cap: Optional[int], scratch: str,
          var: Optional[dict] = None):
    res, art = invoke(cfg_name, spec, raw, flags, ctx, sets, cap, scratch, var)
    case = {"config": cfg_name, "flags": flags, "ctx": ctx, "sets": sets, "cap": cap, "var": var}
    if var:
        cfg_name = f"{cfg_name}[run space {var.get('place', 'top')}, dry run {var.get('dry', 'none')}, trace {var.get('trace', 'dir')}]"
    out: List[Tuple[str, str, dict]] = []
    executed = bool(art["sinks"] or art["traces"] or art["log"])

    def bad(sig, msg):
        out.append((sig, f"{cfg_name} flags={flags} ctx={ctx} set={sets} cap={cap}: {msg} [exit {res.code}; stderr {res.err.strip()[-160:]!r}]", case))

    no_exec_flag = any(f in flags for f in ("--validate", "--dry-run", "--run-space-dry-run")) or (var or {}).get("dry", "none") != "none"
    # O1: pre-flight rejection or a no-execution flag => nothing ran
    if (res.code in (1, 2, 3) or no_exec_flag) and executed:
        bad(f"executed-despite-{'flag' if no_exec_flag else 'rejection'}", f"artefacts found: {art}")
    if spec is None or raw is not None:
        want = EXIT_FILE if (spec is None and raw is None) else EXIT_CONFIG
        if res.code != want:
            bad("wrong-exit-code|file-or-yaml", f"expected exit {want}")
        return out, res.code, executed
    bad_set = any("nope" in s for s in sets)
    if bad_set:
        if res.code != EXIT_CONFIG:
            bad("wrong-exit-code|unknown-override", "an unknown --set path must be a configuration error (3)")
        return out, res.code, executed
    # effective nodes after --set
    nodes_ = copy.deepcopy(spec["nodes"])
    for s in sets:
        k, v = s.split("=", 1)
        parts = k.split(".")
        if parts[:2] == ["pipeline", "nodes"] and len(parts) == 4 and parts[3] == "processor":
            nodes_[int(parts[2])]["processor"] = v
    if spec["invalid"] == "config":
        if res.code != EXIT_CONFIG:
            bad(f"wrong-exit-code|{cfg_name}", "an invalid configuration must exit 3")
        return out, res.code, executed
    state, runs = planned_runs(spec, ctx, cap)
    if "--validate" in flags:
        if res.code != EXIT_OK and not (state != "ok" and res.code == EXIT_CONFIG):
            bad("wrong-exit-code|validate", "a valid configuration with --validate must exit 0")
        return out, res.code, executed
    if state != "ok":
        if res.code != EXIT_CONFIG:
            bad(f"wrong-exit-code|run-space-{state}", "an invalid or over-cap run space must exit 3")
        return out, res.code, executed
    # true need of context keys / flow, per run, from the reference interpreter
    outcomes = [reference_outcome(nodes_, r) for r in runs]
    flow_fail = [i for i, (st, why) in enumerate(outcomes) if st != "ok" and why in ("unresolvable", "type-gate", "construct")]
    if flow_fail:
        if res.code not in (EXIT_CONFIG,) or executed:
            if not (no_exec_flag and res.code == EXIT_OK):
                bad("flow-failure-not-rejected-preflight", f"run {flow_fail[0]} cannot resolve its parameters / types ({outcomes[flow_fail[0]]}); the CLI must reject before executing anything")
        return out, res.code, executed
    if no_exec_flag:
        if res.code != EXIT_OK:
            bad("wrong-exit-code|no-exec-flag", "valid configuration with a dry-run flag must exit 0")
        return out, res.code, executed
    # executing invocation
    first_fail = next((i for i, (st, _) in enumerate(outcomes) if st != "ok"), None)
    if (res.code == EXIT_OK) != (first_fail is None):
        bad("exit-zero-iff-all-runs-completed", f"first failing run: {first_fail}")
    if first_fail is not None and res.code != EXIT_RUNTIME:
        bad("wrong-exit-code|runtime", "a failing run must exit 4")
    done = len(runs) if first_fail is None else first_fail
    want_sinks = sorted((f"out_{r['value']}_{r['a']}.txt" if cfg_name.startswith("rs-source-combinatorial") else f"out_{r['value']}.txt") for r in runs[:done])
    if art["sinks"] != want_sinks:
        bad("wrong-artefacts-after-failure" if first_fail is not None else "wrong-artefacts", f"sink files {art['sinks']} expected {want_sinks}")
    started = len(runs) if first_fail is None else first_fail + 1
    nsrc = sum(1 for name, _ in art["log"] if name == "VSrc")
    if nsrc != started:
        bad("runs-after-failure-started", f"{nsrc} runs started, expected {started}")
    return out, res.code, executed


def invocations(tier: str):
    cfgs = configs()
    flagsets = [[], ["--validate"], ["--dry-run"], ["--run-space-dry-run"], ["--validate", "--dry-run"], ["--dry-run", "--run-space-dry-run"]]
    if tier == "thorough":
        flagsets += [["--validate", "--run-space-dry-run"], ["--validate", "--dry-run", "--run-space-dry-run"]]
    for name, spec in cfgs.items():
        needs = spec["needs"]
        ctxs: List[Dict[str, Any]] = [{k: gen.KEY_VALUES[k] for k in needs}]
        for r in range(len(needs)):                                         # every proper subset of the needed keys
            for sub in itertools.combinations(needs, r):
                ctxs.append({k: gen.KEY_VALUES[k] for k in sub})
        ctxs.append({**{k: gen.KEY_VALUES[k] for k in needs}, "zz": 0.125})    # extra key
        ctxs.append({**{k: gen.KEY_VALUES[k] for k in needs}, "a": FAIL})      # makes failif fail (single runs)
        sets_list: List[List[str]] = [[], ["pipeline.nodes.0.nope=1"], ["pipeline.nope.key=1"]]
        if name in ("valid", "valid-two", "use-before-create"):
            sets_list.append(["pipeline.nodes.0.processor=VSrc"])              # valid path, same value
        caps = [None] if spec["rs"] is None else [None, 0, 1, 3, 1000]
        for flags, ctx, sets, cap in itertools.product(flagsets, ctxs, sets_list, caps):
            if tier == "quick" and sets and flags and len(flags) > 1:
                continue
            yield (name, flags, ctx, sets, cap)
    # where the run space is declared x how a run-space dry run is requested (besides the command-line flag)
    for name in ("valid-rs", "rs-fail-at-1", "rs-cap-exceeded", "rs-length-mismatch", "rs-source-combinatorial", "rs-missing-key"):
        spec = cfgs[name]
        for place in ("top", "nested", "file", "file-bare"):
            for dry in ("none", "declared", "declared-false-then-set"):
                if (place == "top" and dry == "none") or (place.startswith("file") and dry == "declared-false-then-set"):
                    continue  # the default, covered above; --set edits the YAML, which a --run-space-file block then replaces
                quick_small = tier == "quick" and not (name in ("valid-rs", "rs-fail-at-1") and dry == "none")
                for flags in ([[]] if quick_small else [[], ["--run-space-dry-run"], ["--dry-run"], ["--validate"]]):
                    for cap in ([None] if quick_small else [None, 1, 1000]):
                        for ctx in [{k: gen.KEY_VALUES[k] for k in spec["needs"]}] + ([{}] if spec["needs"] else []):
                            yield (name, flags, ctx, [], cap, {"place": place, "dry": dry})
    # how / where the trace is configured: directory or file path, in the YAML or on the command line
    for name in ("valid", "valid-rs", "rs-fail-at-1", "rs-cap-exceeded", "rs-length-mismatch", "use-before-create", "unknown-parameter", "type-adjacent"):
        spec = cfgs[name]
        for tmode in ("file", "relative-file", "cli-file", "cli-dir"):
            for flags in ([], ["--dry-run"], ["--validate"], ["--run-space-dry-run"]):
                ctxs = [{k: gen.KEY_VALUES[k] for k in spec["needs"]}] + ([{}] if spec["needs"] else [])
                for ctx in ctxs:
                    for cap in ([None] if spec["rs"] is None or tier == "quick" else [None, 1]):
                        yield (name, flags, ctx, [], cap, {"trace": tmode})
    for rawname in RAW_FILES:
        for flags in flagsets[:4]:
            yield ("raw:" + rawname, flags, {}, [], None)
    for flags in flagsets[:4]:
        yield ("missing-file", flags, {}, [], None)


def _worker(chunk):
    harness.quiet()
    scratch = harness.enter_scratch()
    cfgs = configs()
    out = {"n": 0, "viol": [], "codes": {}, "executed": 0, "nontrivial": set()}
    for item in chunk:
        name, flags, ctx, sets, cap = item[:5]
        var = item[5] if len(item) > 5 else None
        if name.startswith("raw:"):
            v, code, ex = judge(name, {"nodes": []}, RAW_FILES[name[4:]], flags, ctx, sets, cap, scratch)
        elif name == "missing-file":
            v, code, ex = judge(name, None, None, flags, ctx, sets, cap, scratch)
        else:
            v, code, ex = judge(name, cfgs[name], None, flags, ctx, sets, cap, scratch, var)
        out["n"] += 1
        out["codes"][str(code)] = out["codes"].get(str(code), 0) + 1
        out["executed"] += 1 if ex else 0
        out["nontrivial"].add(core.sha([name, code, ex, sorted(flags), var]))
        out["viol"].extend(v)
    out["nontrivial"] = list(out["nontrivial"])
    return out


def check(tier: str, seed: int) -> Result:
    inv = core.seeded_order(list(invocations(tier)), seed)
    viols: List[Violation] = []
    n = executed = 0
    codes: Dict[str, int] = {}
    nontrivial = set()
    for o in core.pmap_chunks(_worker, inv, chunk=max(4, len(inv) // (core.NPROC * 4))):
        n += o["n"]
        executed += o["executed"]
        nontrivial.update(o["nontrivial"])
        for k, v in o["codes"].items():
            codes[k] = codes.get(k, 0) + v
        for sig, msg, case in o["viol"]:
            viols.append(Violation(sig, msg, case))
    cov = {
        "evaluations": n, "distinct_nontrivial": len(nontrivial),
        "rule": "19 configurations (valid single / two-parameter / run-space; a failing run at each index; use-before-create; delete-then-"
                "require; unknown processor / parameter; probe without key; type incompatibility adjacent and across a context-only node; run-"
                "space length mismatch, duplicate keys, missing source, cap exceeded, missing key) + YAML error / missing file / missing "
                "pipeline.nodes x flag subsets of {--validate, --dry-run, --run-space-dry-run} x context {all, one missing, none, extra, "
                "failure marker} x --set {none, unknown paths, valid} x --run-space-max-runs {none, 1, 1000}; run-space configurations also x "
                "declaration place {top level, under pipeline:, --run-space-file with / without run_space: wrapper (a decoy block in the YAML)} x "
                "dry-run request {none, dry_run: true in the block, --set run_space.dry_run=true}. distinct_nontrivial = distinct "
                "(configuration, exit code, executed?, flags) combinations observed",
        "exit_codes_observed": codes, "invocations_that_executed": executed,
        "samples": [{"config": "use-before-create", "flags": [], "ctx": {"value": 9.0}}], "exhaustive": True,
    }
    return Result("exploration", cov, viols, [
        "decision table from docs/source/cli.rst; 'required key' is judged by the reference interpreter (true need), not by the inspector's answer",
        "under --validate a run-space problem may be reported (3) or not (0); both are accepted since nothing executes",
        "CLI driven in-process; artefacts = processor log, sink files, trace files",
    ])


def replay(case) -> List[Violation]:
    harness.quiet()
    scratch = harness.enter_scratch()
    o = _worker([(case["config"], case["flags"], case["ctx"], case["sets"], case["cap"], case.get("var"))])
    return [Violation(s, m, c) for s, m, c in o["viol"]]



# ---------------------------------------------------------------------------------------------
# environment grid (mc/envgrid.py): what the CLI refuses, what it executes and its exit code are the same in every process

def env_cases(tier: str):
    from mc import envgrid

    inv = [i for i in invocations("quick")]
    return [{"item": list(i)} for i in envgrid.pick(inv, 70 if tier == "quick" else 600)]


def env_observe(case):
    from mc import envgrid

    envgrid.scratch()
    out = _worker([tuple(case["item"])])
    return {"judged": sorted({v[0] for v in out["viol"]}), "codes": out["codes"], "executed": out["executed"]}
