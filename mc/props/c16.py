"""C16 — every class the factories generate satisfies the framework's own contracts.

Enumerates every node configuration the generator can produce (each component kind x each wrapping factory
x nested combinations reachable through YAML or the public factories) and checks the generated node class
and processor class against the published SVA catalogue plus type / key mirroring.
"""
from __future__ import annotations

import copy
import itertools
from typing import Any, Dict, List, Optional, Tuple

from mc import core, gen, harness
from mc.core import Result, Violation


def yaml_node_configs() -> List[Tuple[str, dict]]:
    out: List[Tuple[str, dict]] = []
    for name, sym in gen.SYMBOLS.items():
        if sym["kind"] == "invalid":
            continue
        out.append((f"alphabet:{name}", copy.deepcopy(sym["node"])))
    # every parameter placement that changes what is generated: with / without node-level parameters
    for proc, params in (("VSrc", {"value": 1.0}), ("VSrcDef", {}), ("VSrcDef", {"value": 3.0}), ("VSrc2", {"value": 1.0, "offset": 2.0}), ("VPaySrc", {}),
                         ("VMul", {"factor": 2.0}), ("VTwo", {"factor": 1.0, "addend": 2.0}), ("VNested", {"opts": {"a": 1}}), ("VTxtSink", {"path": "x.txt"}),
                         ("VSink", {}), ("VPaySink", {}), ("VSum", {}), ("VCtxWrite", {}), ("VFailIf", {"a": 1.0})):
        out.append((f"plain:{proc}:{sorted(params)}", {"processor": proc, "parameters": params} if params else {"processor": proc}))
    # legal components without a docstring
    for proc, extra in (("VNoDocSrc", {}), ("VNoDocOp", {}), ("VNoDocProbe", {"context_key": "k"}), ("VNoDocSink", {}), ("VNoDocPaySrc", {}),
                        ("slice:VNoDocOp:FloatDataCollection", {}), ("slice:VNoDocProbe:FloatDataCollection", {"context_key": "k"})):
        out.append((f"nodoc:{proc}", {"processor": proc, **extra}))
    out.append(("nodoc:sweep:VNoDocOp", {"processor": "VNoDocOp", "derive": {"parameter_sweep": {"parameters": {"factor": "t"}, "variables": {"t": [1.0, 2.0]},
                                                                                               "collection": "FloatDataCollection"}}}))
    out.append(("nodoc:sweep:VNoDocSrc", {"processor": "VNoDocSrc", "derive": {"parameter_sweep": {"parameters": {"value": "t"}, "variables": {"t": [1.0, 2.0]},
                                                                                                 "collection": "FloatDataCollection"}}}))
    for proc in ("VProbe", "VGainProbe", "VFactorProbe", "VTwoProbe"):
        for key in ("k", "factor"):
            out.append((f"probe:{proc}->{key}", {"processor": proc, "context_key": key}))
    for spec in ("rename:a:b", "rename:x.y:z", "delete:a", "delete:p.q", 'template:"{a}":b', 'template:"x{a}-{b}":c.d',
                 "slice:VMul:FloatDataCollection", "slice:VMulDef:FloatDataCollection", "slice:VTwo:FloatDataCollection", "slice:VCtxWrite:FloatDataCollection",
                 "slice:VNested:VColl2"):
        out.append((f"shorthand:{spec}", {"processor": spec}))
    for proc in ("VProbe", "VGainProbe", "VTwoProbe"):
        out.append((f"slice-probe:{proc}", {"processor": f"slice:{proc}:FloatDataCollection", "context_key": "r"}))
    # IO components whose data side is NoDataType
    for proc in ("VTriggerSrc", "VCtxOnlyPaySrc", "VNullSink", "VNullPaySink"):
        out.append((f"nodata:{proc}", {"processor": proc}))
    # context-key-bound variants (a subclass generated per output key) and keyword-only parameters
    for key in ("fit_coefficients", "fit.coefficients", "k", "a[0]"):
        out.append((f"ctxkey:ModelFitting->{key}", {"processor": "ModelFittingContextProcessor",
                                                     "parameters": {"fitting_model": "model:PolynomialFittingModel:degree=1", "context_key": key}}))
    out.append(("ctxkey:ModelFitting(unbound)", {"processor": "ModelFittingContextProcessor", "parameters": {"fitting_model": "model:PolynomialFittingModel:degree=2"}}))
    for proc, extra in (("VKwMul", {"parameters": {"factor": 2.0}}), ("VKwTwo", {}), ("VKwGainProbe", {"context_key": "g"}), ("slice:VKwMul:FloatDataCollection", {}),
                        ("slice:VKwGainProbe:FloatDataCollection", {"context_key": "g"})):
        out.append((f"kwonly:{proc}", {"processor": proc, **extra}))
    out.append(("kwonly:sweep:VKwTwo", {"processor": "VKwTwo", "derive": {"parameter_sweep": {"parameters": {"addend": "t"}, "variables": {"t": [1.0, 2.0]},
                                                                                             "collection": "FloatDataCollection"}}, "parameters": {"factor": 2.0}}))
    # sweeps: kinds x variable kinds x with/without defaults x node-level parameters
    var_menu = {"seq": {"values": [1.0, 2.0]}, "range": {"lo": 1.0, "hi": 2.0, "steps": 2}, "log": {"lo": 1.0, "hi": 10.0, "steps": 2, "scale": "log"},
                "ctx": {"from_context": "r"}, "list": [1.0, 2.0, 3.0],
                # legal numbers all: non-finite floats, ints and bools next to floats, a single value
                "nonfinite": {"values": [1.0, float("inf"), float("-inf")]}, "nan": [float("nan"), 2.0], "mixed": {"values": [1, 2.0, True]}, "single": [0.0]}
    for vk, spec in var_menu.items():
        for mode, bc in (("combinatorial", False), ("by_position", True)):
            base = {"variables": {"t": spec, "u": {"values": [1.0]}}, "mode": mode, "broadcast": bc}
            out.append((f"sweep:VSrc:{vk}:{mode}", {"processor": "VSrc", "derive": {"parameter_sweep": {**base, "parameters": {"value": "t * u"}, "collection": "FloatDataCollection"}}}))
            out.append((f"sweep:VSrcDef:{vk}:{mode}", {"processor": "VSrcDef", "derive": {"parameter_sweep": {**base, "parameters": {}, "collection": "FloatDataCollection"}}}))
            out.append((f"sweep:VSrc2:{vk}:{mode}", {"processor": "VSrc2", "parameters": {"offset": 1.0},
                                                      "derive": {"parameter_sweep": {**base, "parameters": {"value": "t"}, "collection": "VColl2"}}}))
            out.append((f"sweep:VMulDef:{vk}:{mode}", {"processor": "VMulDef", "derive": {"parameter_sweep": {**base, "parameters": {"factor": "t"}, "collection": "FloatDataCollection"}}}))
            out.append((f"sweep:VTwo:{vk}:{mode}", {"processor": "VTwo", "parameters": {"addend": 1.0},
                                                     "derive": {"parameter_sweep": {**base, "parameters": {"factor": "t + u"}, "collection": "FloatDataCollection"}}}))
            out.append((f"sweep:VCtxWrite:{vk}:{mode}", {"processor": "VCtxWrite", "derive": {"parameter_sweep": {**base, "parameters": {}, "collection": "FloatDataCollection"}}}))
            out.append((f"sweep:VTwoProbe:{vk}:{mode}", {"processor": "VTwoProbe", "context_key": "res",
                                                          "derive": {"parameter_sweep": {**base, "parameters": {"factor": "t"}}}}))
            out.append((f"sweep:VProbe:{vk}:{mode}", {"processor": "VProbe", "context_key": "res", "derive": {"parameter_sweep": {**base, "parameters": {}}}}))
    return out


def factory_nodes() -> List[Tuple[str, Any]]:
    """Nested combinations only reachable through the public factories."""
    from semantiva.data_processors.data_slicer_factory import slice as make_slice
    from semantiva.data_processors.parametric_sweep_factory import FromContext, ParametricSweepFactory, RangeSpec, SequenceSpec
    from semantiva.examples.test_utils import FloatDataCollection
    from semantiva.pipeline.nodes._pipeline_node_factory import _pipeline_node_factory, _PipelineNodeFactory
    from semantiva.registry import resolve_symbol
    from verif_lib import components as C

    out: List[Tuple[str, Any]] = []
    sweep_op = ParametricSweepFactory.create(element=C.VMulDef, element_kind="DataOperation", collection_output=FloatDataCollection,
                                             vars={"t": SequenceSpec([1.0, 2.0])}, parametric_expressions={"factor": "t"})
    sweep_src = ParametricSweepFactory.create(element=C.VSrc, element_kind="DataSource", collection_output=FloatDataCollection,
                                              vars={"t": RangeSpec(1.0, 2.0, 2), "u": FromContext("r")}, parametric_expressions={"value": "t"})
    sweep_probe = ParametricSweepFactory.create(element=C.VTwoProbe, element_kind="DataProbe", collection_output=None,
                                                vars={"t": SequenceSpec([1.0])}, parametric_expressions={"factor": "t"})
    out.append(("factory:sweep-op-class", {"processor": sweep_op}))
    out.append(("factory:sweep-src-class", {"processor": sweep_src}))
    out.append(("factory:sweep-probe-class", {"processor": sweep_probe, "context_key": "k"}))
    out.append(("factory:slice(VMul)", {"processor": make_slice(C.VMul, FloatDataCollection)}))
    out.append(("factory:slice(VProbe)", {"processor": make_slice(C.VProbe, FloatDataCollection), "context_key": "k"}))
    # a generated class derived from another generated class: slicers of sweeps
    out.append(("factory:slice(sweep-probe)", {"processor": make_slice(sweep_probe, FloatDataCollection), "context_key": "k"}))
    out.append(("factory:rename-class", {"processor": resolve_symbol("rename:a:b")}))
    out.append(("factory:dataop-context-injector", ("node", _PipelineNodeFactory.create_data_operation_context_injector_probe_node(processor_cls=C.VMulDef, context_key="k"))))
    out.append(("factory:dataop-context-injector-sweep", ("node", _PipelineNodeFactory.create_data_operation_context_injector_probe_node(processor_cls=sweep_op, context_key="k"))))
    out.append(("factory:context-data-processor", ("node", _PipelineNodeFactory.create_context_processor_node(input_context_key="a", output_context_key="b", processor_cls=C.VMulDef))))
    return out


def judge(label: str, cfg) -> List[Tuple[str, str, dict]]:
    from semantiva.contracts.expectations import validate_component
    from semantiva.data_io import DataSink, DataSource, PayloadSink, PayloadSource
    from semantiva.data_processors import DataOperation, DataProbe
    from semantiva.data_types import NoDataType
    from semantiva.pipeline.nodes._pipeline_node_factory import _pipeline_node_factory
    from semantiva.pipeline.nodes.nodes import (_ContextProcessorNode, _DataSinkNode, _DataSourceNode, _PayloadSinkNode, _PayloadSourceNode,
                                                _ProbeContextInjectorNode, _DataOperationNode, _ContextDataProcessorNode)

    out: List[Tuple[str, str, dict]] = []
    case = {"label": label}
    if isinstance(cfg, tuple) and cfg[0] == "node":
        node = cfg[1]
    else:
        node = _pipeline_node_factory(copy.deepcopy(cfg))
    ncls = type(node)
    classes = [("node", ncls)]
    proc = getattr(node, "processor", None)
    if proc is not None:
        classes.append(("processor", type(proc)))
    wrapped = getattr(ncls, "processor", None)
    if isinstance(wrapped, type) and wrapped is not type(proc):
        classes.append(("wrapped", wrapped))
    for role, cls in classes:
        for d in validate_component(cls):
            if d.severity == "error":
                out.append((f"contract-error|{d.code}|{role}", f"{label}: {role} class {cls.__name__}: {d.code} {d.message}", case))
    # a generated class is the same class after it has been used: run the node once (every spelling of "no data": a payload holding None
    # and one holding NoDataType(); a float for nodes that take one; failures of the run itself are not this property's business) and
    # lint again
    from semantiva.context_processors import ContextType
    from semantiva.pipeline import Payload

    for datum in ((None, NoDataType(), "float") if "sleep" not in label else ()):
        try:
            if datum == "float":
                from semantiva.examples.test_utils import FloatDataType

                datum = FloatDataType(2.0)
            node.process(Payload(datum, ContextType({k: v for k, v in gen.KEY_VALUES.items()})))
        except BaseException:  # noqa: BLE001
            pass
    for role, cls in classes:
        for d in validate_component(cls):
            if d.severity == "error" and not any(o[0] == f"contract-error|{d.code}|{role}" for o in out):
                out.append((f"contract-error|{d.code}|{role}|after-the-node-has-run", f"{label}: {role} class {cls.__name__} after a run: {d.code} {d.message}", case))
    # mirroring
    if proc is not None and not isinstance(node, (_ContextProcessorNode, _ContextDataProcessorNode)):
        pin = type(proc).input_data_type()
        pout = type(proc).output_data_type() if hasattr(type(proc), "output_data_type") else None
        nin, nout = ncls.input_data_type(), ncls.output_data_type()
        if isinstance(node, (_DataSourceNode, _PayloadSourceNode)):
            if nin is not NoDataType:
                out.append(("mirror|source-takes-data", f"{label}: source node input type {nin}", case))
            if pout is not None and nout is not pout:
                out.append(("mirror|source-output", f"{label}: node output {nout} != processor output {pout}", case))
        elif isinstance(node, (_DataSinkNode, _PayloadSinkNode, _ProbeContextInjectorNode)):
            if nin is not pin or nout is not pin:
                out.append(("mirror|pass-through", f"{label}: sink/probe node types {nin}/{nout} must both equal the processor input type {pin}", case))
        elif isinstance(node, _DataOperationNode):
            expect_out = pin if type(node).__name__.endswith("ContextInjectorProbeNode") else pout
            if nin is not pin or nout is not expect_out:
                out.append(("mirror|operation-types", f"{label}: node types {nin}/{nout} vs processor {pin}/{expect_out}", case))
        declared = set(type(proc).get_created_keys()) if hasattr(type(proc), "get_created_keys") else set()
        got = set(ncls.get_created_keys())
        if not declared <= got:
            out.append(("mirror|created-keys", f"{label}: processor declares created keys {sorted(declared)}; node reports {sorted(got)}", case))
        if isinstance(wrapped, type) and wrapped is not type(proc):
            wkeys: set = set()
            for meth in ("get_created_keys", "injected_context_keys"):
                f = getattr(wrapped, meth, None)
                if callable(f):
                    try:
                        wkeys |= set(f())
                    except Exception:
                        pass
            if not wkeys <= declared:
                out.append(("mirror|adapter-created-keys", f"{label}: wrapped {wrapped.__name__} declares {sorted(wkeys)}; its adapter reports {sorted(declared)}", case))
        ck = getattr(node, "context_key", None)
        if ck and ck not in got:
            out.append(("mirror|context-key", f"{label}: context_key {ck} not in node created keys {sorted(got)}", case))
    md = ncls.get_metadata()
    if proc is not None and not isinstance(node, (_ContextProcessorNode, _ContextDataProcessorNode)):
        want = {"input_data_type": ncls.input_data_type().__name__, "output_data_type": ncls.output_data_type().__name__}
        for k, v in want.items():
            if md.get(k) != v:
                out.append(("mirror|metadata-" + k, f"{label}: node metadata {k}={md.get(k)!r} but the node class declares {v}", case))
        if "injected_context_keys" in md or ncls.get_created_keys():
            if sorted(md.get("injected_context_keys") or []) != sorted(ncls.get_created_keys()):
                out.append(("mirror|metadata-created-keys", f"{label}: node metadata injected_context_keys={md.get('injected_context_keys')} vs get_created_keys()={ncls.get_created_keys()}", case))
    elif isinstance(node, _ContextProcessorNode):
        if sorted(md.get("injected_context_keys") or []) != sorted(ncls.get_created_keys()):
            out.append(("mirror|metadata-created-keys", f"{label}: node metadata injected_context_keys={md.get('injected_context_keys')} vs get_created_keys()={ncls.get_created_keys()}", case))
    if isinstance(node, _ContextProcessorNode):
        declared = set(type(proc).get_created_keys())
        if set(ncls.get_created_keys()) != declared or set(ncls.get_suppressed_keys()) != set(type(proc).get_suppressed_keys()):
            out.append(("mirror|context-processor-keys", f"{label}: node keys {ncls.get_created_keys()}/{ncls.get_suppressed_keys()} vs processor", case))
    return out


def check(tier: str, seed: int) -> Result:
    harness.quiet()
    harness.enter_scratch()  # nodes are run once (sinks write relative paths): never in the caller's directory
    harness.load_config(gen.yaml_config(("src",)))  # loads the extension
    cfgs: List[Tuple[str, Any]] = yaml_node_configs() + factory_nodes()
    viols: List[Violation] = []
    n = 0
    classes = set()
    import gc

    for label, cfg in core.seeded_order(cfgs, seed):
        try:
            v = judge(label, cfg)
            if not (isinstance(cfg, tuple) and cfg[0] == "node"):
                # history: the first generation is dropped and collected, the same configuration is generated again and judged
                # before anything else reads a registry
                gc.collect()
                v2 = judge(label, cfg)
                v = v + [(sig + "|second-generation", "generated again after the first was collected: " + msg, case) for sig, msg, case in v2
                         if sig not in {x[0] for x in v}]
                n += 1
        except Exception as exc:
            viols.append(Violation("generation-fails", f"{label}: {type(exc).__name__}: {exc}", {"label": label}))
            continue
        n += 1
        classes.add(label.split(":")[0] + ":" + label.split(":")[1])
        for sig, msg, case in v:
            viols.append(Violation(sig, msg, case))
    # beyond the small scope: the 600th generation of a configuration is as good as the first (registries, caches and counters
    # that change behaviour after some hundreds of generated classes)
    bulk_cfgs = [c for c in cfgs if c[0] in ("alphabet:src", "alphabet:mul3", "alphabet:probe_r", "alphabet:ren_r_factor", "alphabet:slice_mul", "alphabet:sweep_op",
                                             "alphabet:sink_cfg", "alphabet:paysrc")]
    keep = []
    for rnd in range(600):
        for label, cfg in bulk_cfgs:
            try:
                if rnd % 60 == 59 or rnd >= 597:
                    for sig, msg, case in judge(label, cfg):
                        viols.append(Violation(sig + "|after-many-generations", f"generation {rnd + 1} of {label}: {msg}", {"label": label, "bulk": rnd + 1}))
                    n += 1
                else:
                    from semantiva.pipeline.nodes._pipeline_node_factory import _pipeline_node_factory

                    keep.append(_pipeline_node_factory(copy.deepcopy(cfg)))
                    if len(keep) > 40:
                        del keep[:20]  # most earlier generations die, some stay alive
            except Exception as exc:
                viols.append(Violation("generation-fails|after-many-generations", f"generation {rnd + 1} of {label}: {type(exc).__name__}: {exc}", {"label": label, "bulk": rnd + 1}))
                break
    cov = {
        "evaluations": n, "distinct_nontrivial": len(classes),
        "rule": "every node configuration of the alphabet, every component kind with and without node-level parameters, probes with context keys, "
                "all rename/delete/template/slice shorthands (dotted keys, second collection), slicers of probes, sweeps of source / defaulted "
                "source / two-parameter source / defaulted operation / two-parameter operation / context-writing operation / probes x 5 "
                "variable kinds x 2 modes, plus nested combinations only reachable through the public factories; node class, processor class "
                "and wrapped class validated with validate_component (no error-level diagnostic) + type / created-key mirroring. "
                "distinct_nontrivial = distinct (family, component) generated",
        "samples": [{"label": cfgs[5][0]}, {"label": cfgs[-1][0]}], "exhaustive": True,
    }
    return Result("exploration", cov, viols, ["warn-level diagnostics are allowed by the property"])


def replay(case) -> List[Violation]:
    harness.quiet()
    harness.enter_scratch()  # nodes are run once (sinks write relative paths): never in the caller's directory
    harness.load_config(gen.yaml_config(("src",)))
    for label, cfg in yaml_node_configs() + factory_nodes():
        if label == case["label"]:
            if case.get("bulk"):
                from semantiva.pipeline.nodes._pipeline_node_factory import _pipeline_node_factory

                keep = [_pipeline_node_factory(copy.deepcopy(cfg)) for _ in range(int(case["bulk"]))]
                del keep[: max(0, len(keep) - 20)]
                return [Violation(s + "|after-many-generations", m, c) for s, m, c in judge(label, cfg)]
            return [Violation(s, m, c) for s, m, c in judge(label, cfg)]
    return []



# ---------------------------------------------------------------------------------------------
# environment grid (mc/envgrid.py): the generated classes pass the catalogue in every process (warnings as errors, python -O / -OO where
# docstrings vanish, host logging at DEBUG ...)

ENV_SKIP = {"optimize2": "python -OO removes every docstring, and the catalogue demands documented components: its verdict under -OO is about the "
                         "interpreter flag, not about the generated classes"}


def env_cases(tier: str):
    return [{"label": label} for label, _ in yaml_node_configs()]


def env_observe(case):
    from mc import envgrid

    envgrid.scratch()
    harness.load_config(gen.yaml_config(("src",)))
    cfg = dict(yaml_node_configs())[case["label"]]
    return {"judged": sorted({sig for sig, _, _ in judge(case["label"], cfg)})}
