#!/usr/bin/env python3
"""tools/mkmutant.py <name> <repo-relative-file> <old> <new> [<file2> <old2> <new2> ...] — write mutants/<name>.diff (string replacement, exactly one match each)."""
import difflib, sys
name = sys.argv[1]
out = []
args = sys.argv[2:]
for i in range(0, len(args), 3):
    rel, old, new = args[i:i+3]
    s = open(f"/repo/{rel}").read()
    assert s.count(old) == 1, f"{rel}: {s.count(old)} matches for {old!r}"
    t = s.replace(old, new)
    out += list(difflib.unified_diff(s.splitlines(True), t.splitlines(True), f"a/{rel}", f"b/{rel}"))
open(f"/verif/mutants/{name}.diff", "w").write("".join(out))
print(f"wrote mutants/{name}.diff ({len(out)} lines)")
