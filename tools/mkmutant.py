#!/usr/bin/env python3
"""tools/mkmutant.py <name> (<repo-relative-file> <old> <new>)+ — write mutants/<name>.diff (string replacement, exactly one match each; a file may repeat)."""
import difflib, sys, collections
name = sys.argv[1]
args = sys.argv[2:]
assert len(args) % 3 == 0
orig, cur = {}, collections.OrderedDict()
for i in range(0, len(args), 3):
    rel, old, new = args[i:i+3]
    if rel not in cur:
        orig[rel] = cur[rel] = open(f"/repo/{rel}").read()
    s = cur[rel]
    assert s.count(old) == 1, f"{rel}: {s.count(old)} matches for {old!r}"
    cur[rel] = s.replace(old, new)
out = []
for rel in cur:
    out += list(difflib.unified_diff(orig[rel].splitlines(True), cur[rel].splitlines(True), f"a/{rel}", f"b/{rel}"))
open(f"/verif/mutants/{name}.diff", "w").write("".join(out))
print(f"wrote mutants/{name}.diff ({len(out)} lines)")
