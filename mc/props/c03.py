"""C03 — parameter sweeps expand to exactly the documented element sequence.

Exhaustive enumeration of sweep specifications (variables x domains x mode x broadcast x expressions x
wrapped kind x placement of the non-swept parameter x surrounding pipeline) against mc.ref.sweep.
"""
from __future__ import annotations

import itertools
from typing import Any, Dict, List, Optional, Tuple

from mc import core, gen, harness
from mc.core import Result, Violation
from mc.ref import sweep as ref

DOM = {
    "lin3": {"lo": 1.0, "hi": 3.0, "steps": 3},
    "lin3_noend": {"lo": 1.0, "hi": 3.0, "steps": 3, "endpoint": False},
    "lin1": {"lo": 1.5, "hi": 3.0, "steps": 1},
    "log3": {"lo": 1.0, "hi": 100.0, "steps": 3, "scale": "log"},
    "log3_noend": {"lo": 1.0, "hi": 100.0, "steps": 3, "scale": "log", "endpoint": False},
    "seq1": {"values": [7.0]},
    "seq2": {"values": [4.0, 2.0]},
    "seq3": {"values": [3.0, 1.0, 2.0]},
    "list2": [1.0, 2.0],          # YAML list shorthand: documented as a sequence
    "list3": [5.0, 3.0, 4.0],
    "fromctx2": {"from_context": "r"},
    "seq0": {"values": [0.0, 2.0, 0.0]},      # falsy elements, repeated elements
    "lin0": {"lo": 0.0, "hi": 0.0, "steps": 2},  # degenerate range
    # numbers are numbers: ints and bools next to floats, non-finite values, a long sequence, an int-typed range
    "seqmixed": {"values": [1, 2.0, True]},
    "seqinf": {"values": [float("inf"), 1.0, float("-inf")]},
    "seq12": {"values": [float(i) for i in range(12, 0, -1)]},
    "lin3int": {"lo": 1, "hi": 3, "steps": 3},
    "lin200": {"lo": 0.0, "hi": 1.0, "steps": 200},       # beyond the small scope
    "log50_noend": {"lo": 1.0, "hi": 1.0e6, "steps": 50, "scale": "log", "endpoint": False},
}
KIND = {
    "src": dict(proc="VSrc2", swept="value", other="offset", other_default=0.5, collection=True, data=None),
    "op": dict(proc="VTwo", swept="factor", other="addend", other_default=0.5, collection=True, data=2.0),
    "probe": dict(proc="VTwoProbe", swept="factor", other="gain", other_default=1.0, collection=False, data=2.0),
}
R_VALUE = [2.0, 3.0]
OTHER_CTX, OTHER_CFG = 0.75, 0.25


def element(kind: str, x: Optional[float], p: Dict[str, Any]) -> float:
    if kind == "src":
        return float(p["value"]) + float(p["offset"])
    if kind == "op":
        return x * p["factor"] + p["addend"]
    return x * p["factor"] * p["gain"]


def build_node(case: dict) -> dict:
    k = KIND[case["kind"]]
    ps: Dict[str, Any] = {"parameters": dict(case["exprs"]), "variables": {n: s for n, s in case["vars"]}}
    if k["collection"]:
        ps["collection"] = "FloatDataCollection"
    if case["mode"] != "combinatorial" or case.get("explicit_mode"):
        ps["mode"] = case["mode"]
    if case["broadcast"]:
        ps["broadcast"] = True
    node: Dict[str, Any] = {"processor": k["proc"], "derive": {"parameter_sweep": ps}}
    if case["node_params"]:
        node["parameters"] = dict(case["node_params"])
    if case["kind"] == "probe":
        node["context_key"] = "res"
    return node


def expected(case: dict):
    """("reject", why) | ("ok", data, ctx)"""
    k = KIND[case["kind"]]
    ctx = dict(case["ctx"])
    try:
        seqs = {n: ref.materialise(s, ctx) for n, s in case["vars"]}
        stp = ref.steps(seqs, case["mode"], case["broadcast"])
        unknown = set(case["exprs"]) - {k["swept"], k["other"]}
        if unknown:
            raise ref.Reject("expression targets an unknown parameter")
        elems = []
        for st in stp:
            p: Dict[str, Any] = {}
            for name, default in ((k["swept"], None), (k["other"], k["other_default"])):
                if name in case["exprs"]:
                    p[name] = ref.evaluate(case["exprs"][name], st)          # computed
                elif name in case["node_params"]:
                    p[name] = case["node_params"][name]                      # node parameters
                elif name in ctx:
                    p[name] = ctx[name]                                      # context
                elif default is not None:
                    p[name] = default                                        # default
                else:
                    raise ref.Reject(f"parameter {name} unresolvable")
            elems.append(element(case["kind"], k["data"], p))
    except ref.Reject as r:
        return ("reject", str(r))
    for n, _ in case["vars"]:
        ctx[f"{n}_values"] = seqs[n]
    data = ("F", k["data"]) if k["data"] is not None else ("N",)
    if case["kind"] == "probe":
        ctx["res"] = elems
    else:
        data = ("C", elems)
    sur = case["surround"]
    if sur == "then_sum" and case["kind"] != "probe":
        data = ("F", float(sum(elems)))
    if sur == "then_slice" and case["kind"] != "probe":
        data = ("C", [e * ctx.get("factor", 2.0) for e in elems])  # VMulDef: context overrides its default
    if sur == "then_probe":
        ctx["res2"] = data[1]
    return ("ok", data, ctx)


def program_nodes(case: dict) -> List[dict]:
    nodes = [build_node(case)]
    sur = case["surround"]
    if sur == "then_sum" and case["kind"] != "probe":
        nodes.append({"processor": "VSum"})
    if sur == "then_slice" and case["kind"] != "probe":
        nodes.append({"processor": "slice:VMulDef:FloatDataCollection"})
    if sur == "then_probe":
        nodes.append({"processor": "slice:VProbe:FloatDataCollection" if case["kind"] != "probe" else "VProbe", "context_key": "res2"})
    return nodes


def run_real(case: dict, scratch):
    from semantiva.examples.test_utils import FloatDataType
    from semantiva.pipeline import Pipeline

    cfg = {"extensions": ["verif_lib"], "pipeline": {"nodes": program_nodes(case)}}
    try:
        pc = harness.load_config(cfg)
        pipe = Pipeline(pc.nodes)
    except Exception as exc:
        return ("reject", f"construction: {type(exc).__name__}: {exc}")
    k = KIND[case["kind"]]
    data = FloatDataType(k["data"]) if k["data"] is not None else None
    real = harness.run_pipeline(pipe, data, case["ctx"], scratch)
    # the same in-memory node definitions used again (a second Pipeline from the same list): expanding a sweep must not consume
    # or alter the caller's configuration
    try:
        pipe2 = Pipeline(pc.nodes)
        data2 = FloatDataType(k["data"]) if k["data"] is not None else None
        real2 = harness.run_pipeline(pipe2, data2, case["ctx"], scratch)
        second = (real2.status, real2.data, real2.ctx, real2.error)
    except Exception as exc:
        second = ("construction", None, None, type(exc).__name__)
    if not core.same(second, (real.status, real.data, real.ctx, real.error)):
        return ("second-use", f"first Pipeline from these node definitions: {(real.status, real.data, real.ctx, real.error)}; second Pipeline from the SAME definitions: {second}")
    if real.status != "ok":
        return ("reject", f"run: {real.error}: {real.exc}")
    return ("ok", real.data, real.ctx)


def judge(case: dict, scratch) -> Optional[Tuple[str, str]]:
    exp = expected(case)
    got = run_real(case, scratch)
    tag = f"{case['kind']}"
    if got[0] == "second-use":
        return (f"sweep-definition-consumed-by-first-use|{tag}", got[1])
    if exp[0] == "reject":
        if got[0] != "reject":
            return (f"invalid-sweep-accepted|{exp[1]}", f"documentation rejects ({exp[1]}); implementation returned {got[1:]}")
        return None
    if got[0] != "ok":
        return (f"valid-sweep-rejected|{tag}", f"documentation accepts; implementation: {got[1]}")
    _, data, ctx = exp
    if got[1][0] != data[0] or not ref.close(got[1][1] if len(got[1]) > 1 else None, data[1] if len(data) > 1 else None):
        return (f"wrong-elements|{tag}|{case['mode']}{'+broadcast' if case['broadcast'] else ''}", f"data {got[1]} != documented {data}")
    gctx = got[2]
    for key in sorted(set(ctx) | set(gctx)):
        if key not in gctx:
            what = "var-values-not-published" if key.endswith("_values") else "context-key-missing"
            return (f"{what}|{tag}", f"context key {key}={ctx[key]} missing from the final context {gctx}")
        if key not in ctx:
            return (f"unexpected-context-key|{tag}", f"final context has undocumented key {key}={gctx[key]}")
        if not ref.close(gctx[key], ctx[key]):
            what = "wrong-var-values" if key.endswith("_values") else "wrong-context-value"
            return (f"{what}|{tag}", f"context[{key}]={gctx[key]} != documented {ctx[key]}")
    return None


def cases(tier: str) -> List[dict]:
    out: List[dict] = []
    modes = [("combinatorial", False), ("by_position", False), ("by_position", True), ("combinatorial", True)]
    d1 = ["lin3", "lin3_noend", "lin1", "log3", "log3_noend", "seq1", "seq2", "seq3", "list2", "list3", "fromctx2", "seq0", "lin0",
          "seqmixed", "seqinf", "seq12", "lin3int", "lin200", "log50_noend"]
    d2 = ["seq2", "seq3", "lin3", "log3_noend", "fromctx2", "seq1", "list2"]
    e1 = [None, "t", "2.0 * t", "float(t)", "max(t, 2.0)"]
    e2 = ["t + u", "t * u", "max(t, u)", "u - t", "t"]
    e3 = ["t * u + v", "t + u + v", "v"]
    placements = ["default", "config", "context", "config+context", "config0", "context0"]  # ...0: the value supplied is 0.0 (falsy)
    surrounds = ["alone", "then_sum", "then_slice", "then_probe"]

    def add(kind, vars_, expr, mode, bc, placement, sur, extra=None):
        k = KIND[kind]
        exprs = {} if expr is None else {k["swept"]: expr}
        node_params: Dict[str, Any] = {}
        ctx: Dict[str, Any] = {}
        if any(isinstance(s, dict) and "from_context" in s for _, s in vars_):
            ctx["r"] = list(R_VALUE)
        if "config" in placement:
            node_params[k["other"]] = 0.0 if placement.endswith("0") else OTHER_CFG
        if "context" in placement:
            ctx[k["other"]] = 0.0 if placement.endswith("0") else OTHER_CTX
        if expr is None:
            # nothing computed: the swept parameter is an ordinary external parameter
            if placement in ("config", "config+context", "config0"):
                node_params[k["swept"]] = 0.0 if placement.endswith("0") else 3.0
            elif placement in ("context", "context0"):
                ctx[k["swept"]] = 0.0 if placement.endswith("0") else 5.0
        c = {"kind": kind, "vars": vars_, "exprs": exprs, "mode": mode, "broadcast": bc, "node_params": node_params, "ctx": ctx, "surround": sur}
        if extra:
            extra(c)
        out.append(c)

    for kind in KIND:
        for i, d in enumerate(d1):
            for expr in e1:
                for mode, bc in modes:
                    for j, pl in enumerate(placements):
                        sur = surrounds[(i + j) % len(surrounds)] if tier == "quick" else None
                        for s in ([sur] if sur else surrounds):
                            add(kind, [("t", DOM[d])], expr, mode, bc, pl, s)
        for a, b in itertools.product(d2, repeat=2):
            for ei, expr in enumerate(e2):
                for mode, bc in modes:
                    pls = [placements[(ei + len(a)) % 4]] if tier == "quick" else placements
                    for pl in pls:
                        add(kind, [("u", DOM[a]), ("t", DOM[b])], expr, mode, bc, pl, "alone" if tier == "quick" else surrounds[ei % 4])
        d3 = ["seq2", "seq3", "seq1"] if tier == "quick" else ["seq2", "seq3", "seq1", "lin3"]
        for a, b, c in itertools.product(d3, repeat=3):
            for expr in e3:
                for mode, bc in modes:
                    add(kind, [("v", DOM[a]), ("t", DOM[b]), ("u", DOM[c])], expr, mode, bc, "default", "alone")
        # sweep variables named like the whitelisted helper functions: a bare name is the VARIABLE (the step's value)
        for fn in ("abs", "min", "max", "round", "float", "int", "str", "bool"):
            for expr in (fn, f"2.0 * {fn}", f"3.0 if {fn} else -1.0"):
                for mode, bc in modes[:2]:
                    add(kind, [(fn, DOM["seq3"])], expr, mode, bc, "default", "alone")
        # beyond the small scope: two and three variables of 300 aligned positions each
        big = {"lo": 1.0, "hi": 4.0, "steps": 300}
        add(kind, [("u", big), ("t", {"values": [float(i) for i in range(300)]})], "t + u", "by_position", False, "default", "alone")
        add(kind, [("u", big), ("t", big), ("v", {"from_context": "r300"})], "t * u + v", "by_position", False, "default", "then_sum",
            lambda c: c["ctx"].__setitem__("r300", [0.5] * 300))
        add(kind, [("u", big), ("t", {"values": [1.0, 2.0]})], "t + u", "by_position", True, "default", "alone")
        add(kind, [("max", DOM["seq2"]), ("min", DOM["seq3"])], "(max - min) / 2", "combinatorial", False, "default", "alone")
        add(kind, [("abs", DOM["seq2"]), ("t", DOM["seq3"])], "abs + float(t)", "combinatorial", False, "default", "alone")
        add(kind, [("int", DOM["seq3"]), ("t", DOM["seq3"])], "int * max(t, 2.0)", "by_position", False, "default", "alone")
        # precedence: computed beats node parameters and context for the swept parameter itself
        def both(c, k=KIND[kind]):
            c["node_params"][k["swept"]] = 9.0
            c["ctx"][k["swept"]] = 8.0
        add(kind, [("t", DOM["seq2"])], "2.0 * t", "combinatorial", False, "default", "alone", both)
        # computed expression for the parameter that has a default (and the other one supplied)
        def swap(c, k=KIND[kind]):
            c["exprs"] = {k["other"]: "t"}
            c["node_params"] = {k["swept"]: 3.0}
        add(kind, [("t", DOM["seq3"])], "t", "combinatorial", False, "default", "alone", swap)
        # unknown target parameter; missing from_context key; empty / string from_context
        def unknown(c):
            c["exprs"] = {"nope": "t"}
        add(kind, [("t", DOM["seq2"])], "t", "combinatorial", False, "default", "alone", unknown)
        def nokey(c):
            c["ctx"].pop("r", None)
        add(kind, [("t", DOM["fromctx2"])], "t", "combinatorial", False, "default", "alone", nokey)
        def empty(c):
            c["ctx"]["r"] = []
        add(kind, [("t", DOM["fromctx2"])], "t", "combinatorial", False, "default", "alone", empty)
        def strng(c):
            c["ctx"]["r"] = "ab"
        add(kind, [("t", DOM["fromctx2"])], "t", "combinatorial", False, "default", "alone", strng)
    return out


def _worker(chunk):
    harness.quiet()
    scratch = harness.enter_scratch()
    st = {"n": 0, "viol": [], "outcomes": {"ok": 0, "reject": 0}, "distinct": set(), "sample": None}
    flat: List[dict] = []
    for item in chunk:
        flat.extend(item if isinstance(item, list) else [item])
    for case in flat:
        exp = expected(case)
        st["n"] += 1
        st["outcomes"][exp[0]] += 1
        if exp[0] == "ok":
            st["distinct"].add(core.sha([exp[1], sorted((k, repr(v)) for k, v in exp[2].items())]))
        bad = judge(case, scratch)
        if bad:
            st["viol"].append((bad[0], bad[1], case))
        if st["sample"] is None and exp[0] == "ok" and len(case["vars"]) == 2:
            st["sample"] = {"case": case, "expected": [exp[1], exp[2]]}
        if st["n"] % 50 == 0:
            from mc.props.c01 import _housekeeping

            _housekeeping()
    st["distinct"] = list(st["distinct"])
    return st


def history_groups(tier: str) -> List[List[dict]]:
    """Ordered pairs of sweeps executed back to back in ONE process (each still judged against the reference):
    every ordered pair of single-variable domains, for each wrapped kind — state carried from one sweep to the next
    (caches keyed too coarsely, class-level leftovers) shows up as a wrong second result."""
    out: List[List[dict]] = []
    doms = ["lin3", "lin3_noend", "lin1", "log3", "log3_noend", "seq2", "seq3", "list2", "list3", "fromctx2"]
    kinds = list(KIND) if tier == "thorough" else ["op", "src", "probe"]
    for ki, kind in enumerate(kinds):
        k = KIND[kind]
        for i, d1 in enumerate(doms):
            for j, d2 in enumerate(doms):
                if d1 == d2 or (tier == "quick" and (i + j + ki) % 3 != 0 and {d1, d2} != {"lin3", "lin3_noend"} and {d1, d2} != {"log3", "log3_noend"}):
                    continue
                pair = []
                for d, mode in ((d1, "combinatorial"), (d2, "by_position")):
                    ctx = {"r": list(R_VALUE)} if d == "fromctx2" else {}
                    pair.append({"kind": kind, "vars": [("t", DOM[d])], "exprs": {k["swept"]: "t"}, "mode": mode, "broadcast": False,
                                 "node_params": {}, "ctx": ctx, "surround": "alone"})
                out.append(pair)
    return out


def check(tier: str, seed: int) -> Result:
    cs = core.seeded_order(cases(tier) + history_groups(tier), seed)
    tot = 0
    outcomes = {"ok": 0, "reject": 0}
    distinct = set()
    viols: List[Violation] = []
    samples = []
    for st in core.pmap_chunks(_worker, cs, chunk=max(16, len(cs) // (core.NPROC * 6)), maxtasks=6):
        tot += st["n"]
        for k in outcomes:
            outcomes[k] += st["outcomes"][k]
        distinct.update(st["distinct"])
        for sig, msg, case in st["viol"]:
            viols.append(Violation(sig, f"{_brief(case)}: {msg}", case))
        if st["sample"] and len(samples) < 3:
            samples.append(st["sample"])
    cov = {
        "states": len(distinct), "transitions": tot, "traces_validated_against_impl": tot,
        "evaluations": tot, "distinct_nontrivial": len(distinct),
        "rule": "sweep specs: 1 variable x 11 domains x 5 expressions, 2 variables (declared in non-sorted order) x 7x7 domains x 5 expressions, "
                "3 variables x 3^3 (thorough 4^3) domains x 3 expressions; x {combinatorial, by_position} x broadcast on/off x wrapped kind "
                "{source, operation, probe} x placement of the non-swept parameter {default, config, context, both} x surrounding pipeline "
                "{alone, then sum, then slicer, then probe}; + precedence and rejection cases. distinct_nontrivial = distinct accepted "
                "(output, context) results",
        "reference_outcomes": outcomes, "samples": samples, "exhaustive": True,
    }
    return Result("model_checking", cov, viols, [
        "reference enumerator mc/ref/sweep.py written from docs/source/collection_modifiers.rst; range values compared with rel. tolerance 1e-9",
        "a YAML list is a sequence (docs), whatever its length",
    ])


def _brief(case):
    return f"{case['kind']} vars={[(n, s) for n, s in case['vars']]} exprs={case['exprs']} mode={case['mode']} broadcast={case['broadcast']} node_params={case['node_params']} ctx={case['ctx']} {case['surround']}"


def replay(case) -> List[Violation]:
    harness.quiet()
    scratch = harness.enter_scratch()
    case = dict(case)
    case["vars"] = [tuple(v) for v in case["vars"]]
    bad = judge(case, scratch)
    return [Violation(bad[0], bad[1], case)] if bad else []


# ---------------------------------------------------------------------------------------------
# environment grid (mc/envgrid.py): the expansion of a sweep is a function of its definition in every process

def env_cases(tier: str):
    from mc import envgrid

    cs = [c for c in cases("quick") if not isinstance(c, list)]
    return envgrid.pick(cs, 80 if tier == "quick" else 600)


def env_observe(case):
    from mc import envgrid

    scratch = envgrid.scratch()
    got = run_real(case, scratch)
    bad = judge(case, scratch)
    return envgrid.norm({"got": got, "judged": bad[0] if bad else None}, scratch)
