#!/bin/sh
# tools/all_quick.sh [tier]  — run every registered check once, print one line per check
TIER="${1:-quick}"
cd "$(dirname "$0")/.."
rc=0
for id in C01 C02 C03 C04 C05 C06 C07 C08 C09 C10 C11 C12 C13 C14 C15 C16 C17 C18; do
  out="$(./check $id --tier $TIER 2>&1)"; code=$?
  echo "$id exit=$code $(echo "$out" | grep "^\[$id\]" | cut -c1-160)"
  echo "$out" | grep -E "^VIOLATION|violation sig" | head -3
  [ $code -ne 0 ] && rc=1
done
exit $rc
