"""Reference run-space expander (lazy: sizes are computed arithmetically before anything is built).

plan(block_dict, tables) -> ("reject", reason) | ("cap", actual, max) | ("ok", size, iterator-factory)
`tables` maps a source path to its already-parsed columnar content {column: [values]} as the
documentation defines it for each file format (the harness writes the files from the same tables).
"""
from __future__ import annotations

import itertools
from typing import Any, Callable, Dict, Iterator, List, Optional, Tuple


class Reject(Exception):
    pass


def _expand_size(cols: Dict[str, List[Any]], mode: str) -> int:
    if not cols:
        return 0
    if mode == "by_position":
        ls = {len(v) for v in cols.values()}
        if len(ls) > 1:
            raise Reject("mismatched lengths")
        return ls.pop()
    n = 1
    for v in cols.values():
        n *= len(v)
    return n


def _expand_iter(cols: Dict[str, List[Any]], mode: str) -> Iterator[Dict[str, Any]]:
    keys = sorted(cols)
    if not keys:
        return iter(())
    if mode == "by_position":
        return ({k: cols[k][i] for k in keys} for i in range(len(cols[keys[0]])))
    return (dict(zip(keys, combo)) for combo in itertools.product(*[cols[k] for k in keys]))  # rightmost fastest


def _source_columns(src: dict, tables: Dict[str, Optional[Dict[str, List[Any]]]]) -> Dict[str, List[Any]]:
    path = src["path"]
    if tables.get(path) is None:
        raise Reject("missing source file")
    cols = dict(tables[path])
    if src.get("select") is not None:
        missing = [c for c in src["select"] if c not in cols]
        if missing:
            raise Reject("select of missing column")
        cols = {c: cols[c] for c in src["select"]}
    ren = src.get("rename") or {}
    if ren:
        out: Dict[str, List[Any]] = {}
        for k, v in cols.items():
            t = ren.get(k, k)
            if t in out:
                raise Reject("rename collision")
            out[t] = v
        cols = out
    return cols


def plan(rs: dict, tables: Dict[str, Optional[Dict[str, List[Any]]]]):
    """Returns ("reject", why) | ("cap", actual, max) | ("ok", n, make_iter)."""
    combine = str(rs.get("combine", "combinatorial"))
    max_runs = int(rs.get("max_runs", 1000))
    blocks = rs.get("blocks") or []
    try:
        seen: set = set()
        per_block: List[Tuple[int, Callable[[], Iterator[Dict[str, Any]]]]] = []
        for b in blocks:
            mode = b["mode"]
            ctx = {str(k): list(v) for k, v in (b.get("context") or {}).items()}
            src = b.get("source")
            scol = _source_columns(src, tables) if src else {}
            if set(ctx) & set(scol):
                raise Reject("duplicate key within block")
            if seen & (set(ctx) | set(scol)):
                raise Reject("duplicate key across blocks")
            seen |= set(ctx) | set(scol)
            smode = (src or {}).get("mode", "by_position")
            if mode == "by_position":
                sizes = []
                if ctx:
                    sizes.append(_expand_size(ctx, "by_position"))
                if scol:
                    sizes.append(_expand_size(scol, smode))
                if len(set(sizes)) > 1:
                    raise Reject("context/source run counts differ")
                n = sizes[0] if sizes else 0

                def mk(ctx=ctx, scol=scol, smode=smode):
                    ci = _expand_iter(ctx, "by_position") if ctx else None
                    si = _expand_iter(scol, smode) if scol else None
                    if ci is not None and si is not None:
                        return ({**c, **s} for c, s in zip(ci, si))
                    return ci if ci is not None else (si if si is not None else iter(()))
            else:
                nc = _expand_size(ctx, "combinatorial") if ctx else 1
                ns = _expand_size(scol, smode) if scol else 1
                n = nc * ns

                def mk(ctx=ctx, scol=scol, smode=smode):
                    def gen():
                        for c in (_expand_iter(ctx, "combinatorial") if ctx else iter([{}])):
                            for s in (_expand_iter(scol, smode) if scol else iter([{}])):
                                yield {**c, **s}
                    return gen()
            per_block.append((n, mk))
        if not per_block:
            total = 1

            def make():
                return iter([{}])
        elif combine == "combinatorial":
            total = 1
            for n, _ in per_block:
                total *= n

            def make():
                def rec(i):
                    if i == len(per_block):
                        yield {}
                        return
                    for part in per_block[i][1]():
                        for rest in rec(i + 1):
                            yield {**part, **rest}
                return rec(0)
        else:
            if len({n for n, _ in per_block}) > 1:
                raise Reject("combine=by_position with different block sizes")
            total = per_block[0][0]

            def make():
                def gen():
                    for parts in zip(*[mk() for _, mk in per_block]):
                        m: Dict[str, Any] = {}
                        for p in parts:
                            m.update(p)
                        yield m
                return gen()
    except Reject as r:
        return ("reject", str(r))
    if total > max_runs:
        return ("cap", total, max_runs)
    return ("ok", total, make)
