#!/usr/bin/env python3
"""Run every kept breaking change (mutants/*.diff and seeded/*/patch.diff) against the check(s) that claim to catch it.

usage: tools/detect_all.py [--jobs N] [--only substring]
Prints one line per (change, check): CAUGHT / MISSED / NOAPPLY / ERROR, and exits 1 if anything claimed is not caught.
Each run uses tools/with_mutant.sh (scratch copy under /tmp, removed afterwards; /repo is never touched).
"""
import concurrent.futures as cf
import json
import os
import subprocess
import sys

ROOT = os.path.join(os.path.dirname(os.path.abspath(__file__)), "..")
THOROUGH_ONLY = {("c15_shared_worker_job_id.diff", "C15")}


def jobs():
    out = []
    md = os.path.join(ROOT, "mutants")
    for f in sorted(os.listdir(md)):
        if f.endswith(".diff"):
            cid = f[:3].upper()
            out.append((f, os.path.join(md, f), cid, "thorough" if (f, cid) in THOROUGH_ONLY else "quick", None))
    sd = os.path.join(ROOT, "seeded")
    for d in sorted(os.listdir(sd)):
        mp = os.path.join(sd, d, "meta.json")
        if not os.path.exists(mp):
            continue
        m = json.load(open(mp))
        for cid, how in m.get("caught_by", {}).items():
            if how.startswith("not caught"):
                continue  # recorded for information: that check does not claim this change
            out.append((d, os.path.join(sd, d, "patch.diff"), cid, "thorough" if how.startswith("thorough") else "quick", m.get("base_commit")))
    return out


def run(job):
    name, patch, cid, tier, base = job
    env = dict(os.environ)
    env.pop("BASE", None)
    p = subprocess.run([os.path.join(ROOT, "tools", "with_mutant.sh"), patch, cid, tier], capture_output=True, text=True, env=env)
    txt = p.stdout + p.stderr
    if "PATCH-DOES-NOT-APPLY" in txt and base:
        env["BASE"] = base
        p = subprocess.run([os.path.join(ROOT, "tools", "with_mutant.sh"), patch, cid, tier], capture_output=True, text=True, env=env)
        txt = p.stdout + p.stderr
    if "PATCH-DOES-NOT-APPLY" in txt:
        return job, "NOAPPLY", ""
    if "harness error" in txt or p.returncode not in (0, 1):
        return job, "ERROR", txt.strip().splitlines()[-3:] if txt.strip() else ""
    sig = next((l.strip()[:150] for l in txt.splitlines() if "violation sig=" in l), "")
    return job, ("CAUGHT" if p.returncode == 1 and "VIOLATION property=" in txt else "MISSED"), sig


def main():
    n = 4
    only = None
    a = sys.argv[1:]
    while a:
        x = a.pop(0)
        if x == "--jobs":
            n = int(a.pop(0))
        elif x == "--only":
            only = a.pop(0)
    js = [j for j in jobs() if not only or only in j[0] or only == j[2]]
    bad = 0
    with cf.ThreadPoolExecutor(n) as ex:
        for job, verdict, sig in ex.map(run, js):
            print(f"{verdict:8s} {job[0]:45s} {job[2]} {job[3]:8s} {sig}", flush=True)
            bad += verdict != "CAUGHT"
    print(f"{len(js)} runs, {bad} not caught")
    return 1 if bad else 0


if __name__ == "__main__":
    sys.exit(main())
