"""C10 — tracing is purely observational and traces are reproducible.

(1) every program x context: result / exception with trace=None == with JsonlTraceDriver(detail=*);
(2) histories: A traced, then every B of a menu (incl. sweeps and failing runs), then A again — through
    the same Pipeline object and through a fresh one: the two traces of A are identical after deleting
    the documented volatile fields.
"""
from __future__ import annotations

import copy
import json
from typing import Any, Dict, List, Optional, Tuple

from mc import core, gen, harness, traces
from mc.core import Result, Violation
from mc.props.c06 import ALPHA_FULL, ALPHA_SMALL, SAME_FAMILY_PROGS, cases_for, first_accepted_kind

DETAILS = ["hash", "repr", "context", "all", "hash,repr", "hash,context", "repr,context"]
VOLATILE_TOP = {"timestamp", "seq", "run_id"}


def normalise(records: List[dict]) -> List[dict]:
    out = []
    for r in copy.deepcopy(records):
        for k in VOLATILE_TOP:
            r.pop(k, None)
        if r.get("record_type") == "ser":
            r.get("identity", {}).pop("run_id", None)
            t = r.get("timing")
            if isinstance(t, dict):
                for k in ("started_at", "finished_at", "wall_ms", "cpu_ms"):
                    t.pop(k, None)
        out.append(r)
    return out


def observe(real: harness.RealOutcome) -> dict:
    from verif_lib.components import EMPTY_ERROR, THE_ERROR

    return {"status": real.status, "data": real.data, "ctx": {k: (v if isinstance(v, (int, float, str, bool, type(None))) else f"<{type(v).__name__}>" if hasattr(v, "__next__") else repr(v)) for k, v in real.ctx.items()},
            "error": real.error, "index": real.index,
            "is_original_error": (real.exc is THE_ERROR) if real.error == "ValueError" else (real.exc is EMPTY_ERROR) if real.error == "RuntimeError" else None,
            "message": str(real.exc) if real.exc is not None else None, "log": real.log, "files": sorted(real.files)}


def untraced(prog, dkind, ctx, scratch) -> dict:
    from semantiva.pipeline import Pipeline

    cfg = harness.load_config(gen.yaml_config(prog))
    p = Pipeline(cfg.nodes)
    return observe(harness.run_pipeline(p, gen.make_data(dkind), ctx, scratch))


def first_diff(a: Any, b: Any, path: str = "") -> str:
    if type(a) != type(b):
        return f"{path}: {a!r} vs {b!r}"
    if isinstance(a, dict):
        for k in sorted(set(a) | set(b), key=repr):
            if k not in a or k not in b:
                return f"{path}/{k}: present in only one"
            d = first_diff(a[k], b[k], f"{path}/{k}")
            if d:
                return d
        return ""
    if isinstance(a, (list, tuple)):
        if len(a) != len(b):
            return f"{path}: lengths {len(a)} vs {len(b)}"
        for i, (x, y) in enumerate(zip(a, b)):
            d = first_diff(x, y, f"{path}[{i}]")
            if d:
                return d
        return ""
    if a is b or (isinstance(a, float) and isinstance(b, float) and a != a and b != b):
        return ""
    if hasattr(a, "__next__") and type(a) is type(b):
        return ""  # two one-shot iterators made for the two runs: their identity is not an observation
    try:
        same = bool(a == b)
    except Exception:  # values whose == is element-wise or raises (numpy arrays, tripwire objects): compare what they show
        same = repr(a) == repr(b)
    return "" if same else f"{path}: {a!r} vs {b!r}"


def exotic_values() -> Dict[str, Any]:
    """Unusual-but-legal context values that nothing in the pipeline reads: a numpy array (ambiguous truth value, element-wise ==)
    and an object whose comparison / truth / len / iteration hooks raise."""
    import numpy as np
    from verif_lib.components import Trip

    return {"arr": np.array([1.0, 2.0, 3.0]), "trip": Trip(), "nan": float("nan"), "mixedkeys": {1: "a", "b": 2}}


def exotic_param_values() -> Dict[str, Any]:
    """Unusual-but-legal values put where a node READS them (a context-sourced parameter): whatever the processor then does
    (most raise TypeError), the traced run must do the same.  Dicts with unorderable keys defeat sort_keys JSON dumps."""
    import numpy as np
    from verif_lib.components import Trip

    return {"mixedkeys": {1: "a", "b": 2}, "nonekey": {None: 1, "a": 2}, "nested-mixed": [{"a": {1: 2, "c": 3}}], "tuplekey": {(1, 2): 3},
            "arr": np.array([1.0, 2.0]), "trip": Trip(), "nan": float("nan"), "set": {1, 2}, "bytes": b"x", "complex": 1j, "bigint": 10 ** 400,
            # one-shot iterables: whoever iterates them first empties them — that must be the node, as in the untraced run
            "iterator": iter([1.0, 2.0]), "generator": (float(i) for i in (3, 4)), "map": map(float, (5, 6))}


def _worker_obs(chunk):
    harness.quiet()
    scratch = harness.enter_scratch()
    out = {"n": 0, "viol": [], "outcomes": {}, "nontrivial": set()}
    for prog, details in chunk:
        dk = first_accepted_kind(prog)
        ctxs = cases_for(prog)
        if len(prog) <= 2 or prog in SAME_FAMILY_PROGS:
            full = ctxs[-1]
            ctxs = ctxs + [{**full, "__exotic__": True}, {**full, **gen.WIDE_CONTEXT}]
            ctxs = ctxs + [{**full, "__exoticparam__": (k, name)} for k in sorted(full) for name in exotic_param_values()]
        for ctx in ctxs:
            if ctx.get("__exotic__"):
                ctx = {k: v for k, v in ctx.items() if k != "__exotic__"}
                ctx.update(exotic_values())
            elif ctx.get("__exoticparam__"):
                k, name = ctx["__exoticparam__"]
                ctx = {kk: v for kk, v in ctx.items() if kk != "__exoticparam__"}
                ctx[k] = exotic_param_values()[name]
            fresh = None
            if any(hasattr(v, "__next__") for v in ctx.values()):
                spec_k = next(k_ for k_, v in ctx.items() if hasattr(v, "__next__"))
                spec_name = next(n_ for n_, v in exotic_param_values().items() if type(v) is type(ctx[spec_k]))

                def fresh(ctx=ctx, spec_k=spec_k, spec_name=spec_name):  # noqa: E731 - a NEW one-shot object for every run
                    return {**ctx, spec_k: exotic_param_values()[spec_name]}
                ctx = fresh()
            try:
                base = untraced(prog, dk, ctx, scratch)
            except Exception:
                continue  # loader refuses
            out["outcomes"][f"{base['status']}:{base['error']}"] = out["outcomes"].get(f"{base['status']}:{base['error']}", 0) + 1
            for detail in details:
                try:
                    records, files, real, _, _ = traces.traced_single(prog, dk, fresh() if fresh else ctx, detail=detail, mode="file", scratch=scratch)
                except traces.TraceUnreadable as exc:
                    out["n"] += 1
                    out["viol"].append(("trace-not-parsable", f"{list(prog)} detail={detail}: {exc}", {"kind": "obs", "prog": list(prog), "ctx": {}, "detail": detail}))
                    continue
                tr = observe(real)
                tr["files"] = base["files"]  # traced_single does not read sink files; the processor log covers sink calls
                out["n"] += 1
                if len(records) >= 3:
                    out["nontrivial"].add(core.sha([prog, ctx, detail]))
                b2 = dict(base)
                if first_diff(b2, tr):
                    out["viol"].append(("traced-run-differs-from-untraced",
                                        f"{list(prog)} ctx={ctx} detail={detail}: {first_diff(b2, tr)}",
                                        {"kind": "obs", "prog": list(prog), "ctx": {k_: (v_ if not hasattr(v_, "__next__") else f"<{type(v_).__name__}>") for k_, v_ in ctx.items()},
                                         "detail": detail}))
        from mc.props.c01 import _housekeeping

        _housekeeping()
    out["nontrivial"] = list(out["nontrivial"])
    return out


# ---- histories ---------------------------------------------------------------------------------------------------
A_MENU: List[Tuple[Tuple[str, ...], Dict[str, Any]]] = [
    (("src", "mul3", "probe_r", "sink"), {}),
    (("sweep_src", "slice_muldef", "sum", "gainprobe"), {"factor": 5.0}),
    (("src", "sweep_op", "slice_mul", "sum"), {"factor": 5.0}),
    (("src", "mul", "fail"), {"factor": 5.0}),
    (("paysrc", "ctxw", "tmpl_path", "sink_ctx"), {}),
    (("src", "probe_factor", "ren_factor_a", "del_a", "muldef"), {}),
    (("src", "two"), {}),
]
B_MENU: List[Tuple[Tuple[str, ...], Dict[str, Any]]] = [
    (("src", "sweep_op", "sum"), {}),
    (("sweep_src", "sum"), {}),
    (("src", "fail"), {}),
    (("src", "mul"), {}),
    (("src", "bogus"), {}),
    (("srcdef", "muldef", "probe_r"), {"value": 9.0, "factor": 5.0}),
]


def _worker_hist(chunk):
    from semantiva.pipeline import Pipeline

    harness.quiet()
    scratch = harness.enter_scratch()
    out = {"n": 0, "viol": []}
    for (aprog, actx), (bprog, bctx), detail, reuse in chunk:
        dk = first_accepted_kind(aprog)
        rec1, _, real1, pipe, _ = traces.traced_single(aprog, dk, actx, detail=detail, mode="file", scratch=scratch)
        try:
            traces.traced_single(bprog, first_accepted_kind(bprog), bctx, detail=detail, mode="file", scratch=scratch)
        except Exception:
            pass
        rec2, _, real2, _, _ = traces.traced_single(aprog, dk, actx, detail=detail, mode="file", scratch=scratch,
                                                    pipeline=pipe if reuse else None)
        out["n"] += 1
        n1, n2 = normalise(rec1), normalise(rec2)
        if n1 != n2:
            d = first_diff(n1, n2)
            field = d.split(":")[0]
            out["viol"].append(("trace-not-reproducible",
                                f"A={list(aprog)} then B={list(bprog)} then A again ({'same Pipeline object' if reuse else 'fresh Pipeline'}, detail={detail}): {d[:300]}",
                                {"kind": "hist", "a": [list(aprog), actx], "b": [list(bprog), bctx], "detail": detail, "reuse": reuse}, field))
        if observe(real1) != observe(real2):
            out["viol"].append(("result-not-reproducible", f"A={list(aprog)}: {first_diff(observe(real1), observe(real2))}",
                                {"kind": "hist", "a": [list(aprog), actx], "b": [list(bprog), bctx], "detail": detail, "reuse": reuse}, ""))
    return out


_CHILD = r"""
import json, sys, logging
logging.disable(logging.CRITICAL)
from mc.props import c10
print(json.dumps(c10.fresh_history(json.loads(sys.argv[1]), sys.argv[2])))
"""


def fresh_history(seq, detail):
    """Run the given (program, context) sequence in THIS (fresh) process; return the normalised trace of the last one."""
    harness.quiet()
    scratch = harness.enter_scratch()
    out = None
    for prog, ctx in seq:
        prog = tuple(prog)
        try:
            recs, _, real, _, _ = traces.traced_single(prog, first_accepted_kind(prog), ctx, detail=detail, mode="file", scratch=scratch)
            out = {"trace": normalise(recs), "obs": observe(real)}
        except Exception as exc:
            out = {"trace": None, "obs": f"loader: {type(exc).__name__}"}
    return out


def _worker_fresh(chunk):
    """trace(A) in a fresh process == trace(A) after B in another fresh process (nothing B leaves behind may show in A's trace)."""
    import os
    import subprocess
    import sys

    out = {"n": 0, "viol": []}
    for (aprog, actx), (bprog, bctx), detail in chunk:
        def child(seq):
            p = subprocess.run([sys.executable, "-c", _CHILD, json.dumps(seq), detail], capture_output=True, text=True, env=dict(os.environ), timeout=300)
            if p.returncode != 0:
                raise RuntimeError(p.stderr[-500:])
            return json.loads(p.stdout.strip().splitlines()[-1])
        alone = child([[list(aprog), actx]])
        after = child([[list(bprog), bctx], [list(aprog), actx]])
        out["n"] += 2
        if alone["trace"] != after["trace"]:
            d = first_diff(alone["trace"], after["trace"])
            out["viol"].append(("trace-depends-on-process-history",
                                f"A={list(aprog)} ctx={actx}: its trace in a fresh process differs from its trace after B={list(bprog)} ctx={bctx} (detail={detail}): {d[:300]}",
                                {"kind": "fresh", "a": [list(aprog), actx], "b": [list(bprog), bctx], "detail": detail}))
        elif alone["obs"] != after["obs"]:
            out["viol"].append(("result-depends-on-process-history", f"A={list(aprog)} after B={list(bprog)}: {first_diff(alone['obs'], after['obs'])[:300]}",
                                {"kind": "fresh", "a": [list(aprog), actx], "b": [list(bprog), bctx], "detail": detail}))
    return out


# pairs (A, B) that share processor classes under different placements of the same parameter, so that anything cached
# per class / per name by B would be wrong for A
FRESH_PAIRS = [
    ((("src", "mul"), {"factor": 5.0}), (("src", "mul3"), {})),
    ((("src", "mul3"), {}), (("src", "mul"), {"factor": 5.0})),
    ((("src", "mul"), {}), (("src", "mul3"), {})),
    ((("src", "two"), {"factor": 5.0}), (("src", "two_cfg"), {"factor": 5.0})),
    ((("src", "two_cfg"), {"factor": 5.0}), (("src", "two"), {"factor": 5.0, "addend": 0.75})),
    ((("srcdef",), {}), (("srcdef",), {"value": 9.0})),
    ((("src_ctx",), {"value": 9.0}), (("src",), {})),
    ((("src",), {}), (("src_ctx",), {"value": 9.0})),
    ((("src", "muldef"), {}), (("src", "muldef"), {"factor": 5.0})),
    ((("src", "sink_ctx"), {"path": "p.txt"}), (("src", "sink_cfg"), {})),
    ((("src", "sweep_op", "sum"), {}), (("sweep_src", "sum"), {})),
    ((("coll_probe",), {}), (("src", "probe_r"), {})),
]


def inplace_histories() -> Tuple[int, List[Violation]]:
    """Beyond the small scope: the same configuration on the same payload CONTENT — once a collection object of 128 ... 300 elements that
    an earlier run has already seen with other content (the caller changed it in place), once a fresh object: identical traces."""
    import os

    from semantiva.examples.test_utils import FloatDataCollection, FloatDataType
    from semantiva.pipeline import Pipeline
    from semantiva.trace.drivers.jsonl import JsonlTraceDriver

    harness.quiet()
    scratch = harness.enter_scratch()
    cfg = harness.load_config(gen.yaml_config(("slice_mul3", "slice_probe", "sum")))
    viols: List[Violation] = []
    n = 0

    def run(data, detail):
        from mc import cli as _cli

        harness.clear_dir(scratch)
        tp = os.path.join(scratch, "t.ser.jsonl")
        pipe = Pipeline(cfg.nodes, trace=JsonlTraceDriver(tp, detail=detail))
        real = harness.run_pipeline(pipe, data, {}, None)
        recs, _ = _cli.collect_trace(tp)
        return normalise(recs), observe(real)

    for size in (127, 128, 300):
        for detail in ("hash", "all"):
            vals = [float(i % 13) + i * 0.25 for i in range(size)]
            x = FloatDataCollection.from_list([FloatDataType(v) for v in vals])
            run(x, detail)
            x.data[1] = FloatDataType(-3.5)
            t_old_obj, o_old = run(x, detail)
            t_fresh, o_fresh = run(FloatDataCollection.from_list([FloatDataType(v) for v in [vals[0], -3.5] + vals[2:]]), detail)
            n += 3
            if t_old_obj != t_fresh or o_old != o_fresh:
                viols.append(Violation("trace-depends-on-earlier-object-state", f"{size}-element collection, detail={detail}: {first_diff(t_fresh, t_old_obj)[:300]}",
                                       {"kind": "inplace"}))
    return n, viols


NO_PAYLOAD_PROGS = [("src", "probe_r"), ("srcdef", "ctxw", "probe_r"), ("paysrc", "tmpl_a"), ("sweep_src", "sum", "probe_r"), ("src", "mul3", "ren_r_factor")]


def no_payload_histories() -> Tuple[int, List[Violation]]:
    """One Pipeline object run three times WITHOUT a payload (process(), process(None), process() - what a caller does whose pipeline starts
    with a source): every run starts from nothing, so all three leave the same normalised trace and return equal results, and a result
    handed back earlier is not changed by a later run."""
    import copy as _copy
    import os

    from semantiva.pipeline import Pipeline
    from semantiva.trace.drivers.jsonl import JsonlTraceDriver

    harness.quiet()
    scratch = harness.enter_scratch()
    viols: List[Violation] = []
    n = 0
    for prog in NO_PAYLOAD_PROGS:
        for detail in ("hash", "all"):
            cfg = harness.load_config(gen.yaml_config(prog))
            harness.clear_dir(scratch)
            tdir = os.path.join(scratch, "tdir")
            pipe = Pipeline(cfg.nodes, trace=JsonlTraceDriver(tdir, detail=detail))
            outs, kept = [], []
            for call in ("()", "(None)", "()"):
                harness.reset_log()
                try:
                    res = pipe.process() if call == "()" else pipe.process(None)
                    outs.append(("ok", harness.canon_data(res.data), harness.canon_ctx(res.context.to_dict())))
                    kept.append((res, _copy.deepcopy(outs[-1])))
                except Exception as exc:  # noqa: BLE001
                    outs.append(("raised", type(exc).__name__, str(exc)[:120]))
                n += 1
            from mc import cli as _cli

            recs, files = _cli.collect_trace(tdir)
            runs: Dict[str, List[dict]] = {}
            for r in recs:
                rid = r.get("run_id") or (r.get("identity") or {}).get("run_id")
                runs.setdefault(rid, []).append(r)
            traces_ = [normalise(v) for v in runs.values()]
            case = {"kind": "no-payload", "prog": list(prog), "detail": detail}
            if any(not core.same(o, outs[0]) for o in outs[1:]):
                viols.append(Violation("result-depends-on-earlier-run|no-payload", f"{list(prog)}: process() / process(None) / process() on one Pipeline returned {outs}", case))
            elif len(traces_) != 3 or any(t != traces_[0] for t in traces_[1:]):
                d = first_diff(traces_[0], traces_[1]) if len(traces_) > 1 else f"{len(traces_)} runs in the trace"
                viols.append(Violation("trace-depends-on-earlier-run|no-payload", f"{list(prog)} detail={detail}: three payload-less runs of one Pipeline leave different traces: {str(d)[:300]}", case))
            for res, snap in kept:
                now = ("ok", harness.canon_data(res.data), harness.canon_ctx(res.context.to_dict()))
                if not core.same(now, snap):
                    viols.append(Violation("earlier-result-changed-by-later-run|no-payload", f"{list(prog)}: a payload returned by an earlier run reads {now} after later runs; it was {snap}", case))
                    break
    return n, viols


def launch_histories(tier: str) -> Tuple[int, List[Violation]]:
    """A run-space launch under an explicit launch id (or an idempotency key), performed, then another launch, then the first
    again — all in this process: the traces of the repeated launch are identical modulo the documented volatile fields."""
    harness.quiet()
    scratch = harness.enter_scratch()
    viols: List[Violation] = []
    n = 0
    cases = traces.LAUNCH_CASES[:2] if tier == "quick" else traces.LAUNCH_CASES
    for ci, (prog, rs) in enumerate(cases):
        other = traces.LAUNCH_CASES[(ci + 2) % len(traces.LAUNCH_CASES)]
        for mode in ("dir", "file"):
            for extra in (["--run-space-launch-id", f"L-{ci}"], ["--run-space-idempotency-key", f"key-{ci}"], ["--run-space-launch-id", f"L-{ci}", "--run-space-attempt", "3"]):
                r1, _, res1 = traces.traced_launch(prog, rs, mode=mode, extra_args=extra, scratch=scratch)
                traces.traced_launch(other[0], other[1], mode=mode, extra_args=extra, scratch=scratch)
                r2, _, res2 = traces.traced_launch(prog, rs, mode=mode, extra_args=extra, scratch=scratch)
                n += 3
                a, b = normalise(r1), normalise(r2)
                if a != b or res1.code != res2.code:
                    d = first_diff(a, b) or f"exit codes {res1.code} vs {res2.code}"
                    viols.append(Violation("launch-trace-not-reproducible", f"launch {list(prog)} {extra} ({mode}) performed twice in one process: {d[:300]}; "
                                           f"record types {[r.get('record_type') for r in r1]} vs {[r.get('record_type') for r in r2]}",
                                           {"kind": "launch", "tier": tier}))
    return n, viols


def check(tier: str, seed: int) -> Result:
    if tier == "quick":
        progs = gen.programs(ALPHA_FULL, [1, 2]) + gen.programs(ALPHA_SMALL[:9], [3])
        dets = lambda i: [DETAILS[i % len(DETAILS)], "all"]  # noqa: E731
    else:
        progs = gen.programs(ALPHA_FULL, [1, 2, 3])
        dets = lambda i: DETAILS  # noqa: E731
    progs = list(progs) + list(SAME_FAMILY_PROGS) + list(gen.MENU_PROGS) + list(gen.LONG_PROGS)
    jobs = [(p, dets(i)) for i, p in enumerate(sorted(set(progs)))]
    jobs = core.seeded_order(jobs, seed)
    viols: List[Violation] = []
    n = 0
    outcomes: Dict[str, int] = {}
    nontrivial = set()
    for o in core.pmap_chunks(_worker_obs, jobs, chunk=max(8, len(jobs) // (core.NPROC * 8)), maxtasks=4):
        n += o["n"]
        nontrivial.update(o["nontrivial"])
        for k, v in o["outcomes"].items():
            outcomes[k] = outcomes.get(k, 0) + v
        for sig, msg, case in o["viol"]:
            viols.append(Violation(sig, msg, case))
    hjobs = [(a, b, d, r) for a in A_MENU for b in B_MENU for d in (["hash", "all"] if tier == "quick" else DETAILS) for r in (True, False)]
    nh = 0
    for o in core.pmap_chunks(_worker_hist, hjobs, chunk=max(2, len(hjobs) // (core.NPROC * 2))):
        nh += o["n"]
        for sig, msg, case, field in o["viol"]:
            viols.append(Violation(sig, msg, case))
    pairs = [p for p in FRESH_PAIRS if all(sym in gen.SYMBOLS for sym in p[0][0] + p[1][0])]
    if tier == "thorough":
        pairs = pairs + [(a, b) for a in A_MENU for b in B_MENU]
    fjobs = [(a, b, d) for a, b in pairs for d in (["all"] if tier == "quick" else ["hash", "all"])]
    nf = 0
    for o in core.pmap_chunks(_worker_fresh, fjobs, chunk=1):
        nf += o["n"]
        for sig, msg, case in o["viol"]:
            viols.append(Violation(sig, msg, case))
    nl, vl = launch_histories(tier)
    viols.extend(vl)
    nh += nl
    ni, vi = inplace_histories()
    viols.extend(vi)
    nh += ni
    nn, vn = no_payload_histories()
    viols.extend(vn)
    nh += nn
    cov = {
        "evaluations": n + nh + nf, "distinct_nontrivial": len(nontrivial) + nh + len(fjobs), "fresh_process_runs": nf,
        "rule": "observation: all programs of length 1-2 over a 20-symbol alphabet (+ length 3: reduced; thorough: full) x {empty, full} "
                "context, each run untraced and traced at detail levels, everything observable compared (data, context, exception class / "
                "message / identity, failing node, processor log); histories: 7 pipelines A x 6 pipelines B x details x {same Pipeline "
                "object, fresh}: trace(A) before and after B equal modulo volatile fields. non-trivial = traced runs with >= 3 records + histories",
        "untraced_outcome_classes": outcomes, "histories": nh,
        "samples": [{"a": list(A_MENU[1][0]), "b": list(B_MENU[0][0]), "detail": "all", "reuse": True}], "exhaustive": True,
    }
    return Result("exploration", cov, viols, [
        "volatile fields removed before comparing traces: run ids, timestamps, durations, cpu, seq",
    ])


def replay(case) -> List[Violation]:
    if case["kind"] == "no-payload":
        return [v for v in no_payload_histories()[1] if v.case["prog"] == case["prog"] and v.case["detail"] == case["detail"]]
    if case["kind"] == "inplace":
        return inplace_histories()[1][:1]
    if case["kind"] == "launch":
        return launch_histories(case.get("tier", "quick"))[1][:1]
    if case["kind"] == "fresh":
        o = _worker_fresh([((tuple(case["a"][0]), case["a"][1]), (tuple(case["b"][0]), case["b"][1]), case["detail"])])
        return [Violation(s, m, c) for s, m, c in o["viol"]]
    if case["kind"] == "obs":
        o = _worker_obs([(tuple(case["prog"]), [case["detail"]])])
        return [Violation(s, m, c) for s, m, c in o["viol"]][:1]
    a, b = (tuple(case["a"][0]), case["a"][1]), (tuple(case["b"][0]), case["b"][1])
    o = _worker_hist([(a, b, case["detail"], case["reuse"])])
    return [Violation(s, m, c) for s, m, c, _ in o["viol"]]


# ---------------------------------------------------------------------------------------------
# environment grid (mc/envgrid.py): the normalised trace and the traced run's result are functions of (configuration, payload)

def env_cases(tier: str):
    from mc import envgrid
    from mc.props.c06 import plan as plan06

    jobs = [j for j in plan06("quick") if len(j) == 3]
    sel = envgrid.pick([j for j in jobs if len(j[0]) <= 2], 20 if tier == "quick" else 150) + envgrid.pick([j for j in jobs if len(j[0]) > 2], 30 if tier == "quick" else 150)
    from mc.props.c06 import ENV_MANY_KEYS

    sel += [(p, d, None) for p in ENV_MANY_KEYS for d in ("hash", "all", "repr,context")]
    return [{"prog": list(p), "detail": d, "ctx": cases_for(p)[-1]} for p, d, _ in sel]


def env_observe(case):
    from mc import envgrid, traces

    scratch = envgrid.scratch()
    prog = tuple(case["prog"])
    dk = first_accepted_kind(prog)
    try:
        plain = untraced(prog, dk, case["ctx"], scratch)
    except Exception as exc:
        return {"loader": type(exc).__name__}
    try:
        records, files, real, pipe, driver = traces.traced_single(prog, dk, case["ctx"], detail=case["detail"], mode="file", scratch=scratch)
    except traces.TraceUnreadable as exc:
        return {"trace": "unreadable"}
    return envgrid.norm({"untraced": plain, "traced": observe(real), "same": not first_diff(plain, observe(real)), "trace": normalise(records)}, scratch)
