#!/usr/bin/env python3
"""Systematic syntactic mutation campaign against the checks (evaluates the verifier; it decides no property).

For every anchored source file (or those given with --files) it enumerates single-site syntactic changes
(comparison flips, and/or, dropped negation, negated conditions, True/False, n -> n+1, unwrapped copies
(sorted/deepcopy/dict/list/tuple/set/.copy()), deleted call statements, dropped raise, break/continue, 0 <-> -1
subscripts, +/-, `with <lock>:` -> `if True:`), and for each one
  stage 1  runs the repository's own test-suite on a scratch copy (first failure stops it): a change the suite
           rejects is uninteresting;
  stage 2  runs, on the same scratch copy, the quick tier of every check whose property is anchored in that file,
           stopping at the first VIOLATION.
Result lines (JSON) go to --out; survivors of both stages are the ones to read by hand: each is either equivalent /
outside every property, or a gap in a check.

usage: tools/mutation_campaign.py --out campaign/<name>.jsonl [--files f ...] [--stride K --offset O] [--tests-jobs N]
                                  [--check-jobs M] [--limit L]
Scratch copies live under /tmp and are removed; /repo is never touched.
"""
from __future__ import annotations

import argparse
import ast
import concurrent.futures as cf
import json
import os
import re
import shutil
import subprocess
import sys
import tempfile
import threading

ROOT = os.path.dirname(os.path.dirname(os.path.abspath(__file__)))
REPO = os.environ.get("VERIF_REPO", "/repo")
SKIP_TEST = "tests/test_export_ontology.py::test_export_framework_ontology_script"

CMP = {ast.Eq: ("==", "!="), ast.NotEq: ("!=", "=="), ast.Lt: ("<", "<="), ast.LtE: ("<=", "<"), ast.Gt: (">", ">="),
       ast.GtE: (">=", ">"), ast.Is: ("is", "is not"), ast.IsNot: ("is not", "is"), ast.In: ("in", "not in"),
       ast.NotIn: ("not in", "in")}
UNWRAP = {"sorted", "deepcopy", "dict", "list", "tuple", "set", "frozenset", "copy"}
LOGGERS = {"logger", "logging", "_logger", "log", "warnings", "print", "LOGGER"}


# rough CPU cost (seconds) of each quick tier: the cheapest relevant check runs first, a catch ends the mutant's run
COST = {"C01": 800, "C02": 300, "C03": 100, "C04": 200, "C05": 330, "C06": 150, "C07": 450, "C08": 60, "C09": 250, "C10": 600, "C11": 500,
        "C12": 700, "C13": 180, "C14": 150, "C15": 300, "C16": 60, "C17": 100, "C18": 400}


def anchored():
    files = {}
    for l in open(os.path.join(ROOT, "properties.jsonl")):
        p = json.loads(l)
        for f in p["anchors"]["files"]:
            if "*" not in f and f.endswith(".py"):
                files.setdefault(f, []).append(p["id"])
    return files


class Gen(ast.NodeVisitor):
    def __init__(self, src: str):
        self.src = src
        self.lines = src.split("\n")
        self.starts = [0]
        for ln in self.lines:
            self.starts.append(self.starts[-1] + len(ln.encode()) + 1)
        self.b = src.encode()
        self.out = []  # (lineno, op, start, end, replacement-bytes)
        self.quiet = 0

    def off(self, lineno, col):
        return self.starts[lineno - 1] + col

    def span(self, n):
        return self.off(n.lineno, n.col_offset), self.off(n.end_lineno, n.end_col_offset)

    def text(self, n):
        s, e = self.span(n)
        return self.b[s:e]

    def add(self, lineno, op, s, e, rep: bytes):
        if not self.quiet and self.b[s:e] != rep:
            self.out.append((lineno, op, s, e, rep))

    def between(self, a, b, lineno, op, old: str, new: str):
        s, e = self.span(a)[1], self.span(b)[0]
        seg = self.b[s:e].decode()
        m = re.search(r"(?<![\w])" + re.escape(old) + r"(?![\w=])" if old[0].isalpha() else re.escape(old), seg)
        if m:
            self.add(lineno, op, s + len(seg[:m.start()].encode()), s + len(seg[:m.end()].encode()), new.encode())

    # -- quiet zones: logging calls, raise messages, docstrings ----------------------------
    def _root_name(self, f):
        while isinstance(f, ast.Attribute):
            f = f.value
        return f.id if isinstance(f, ast.Name) else None

    def visit_Call(self, n):
        root = self._root_name(n.func)
        if root in LOGGERS or (isinstance(n.func, ast.Attribute) and n.func.attr in ("debug", "info", "warning", "error", "warn", "exception")):
            return
        name = n.func.id if isinstance(n.func, ast.Name) else (n.func.attr if isinstance(n.func, ast.Attribute) else None)
        if name in UNWRAP and not n.keywords:
            s, e = self.span(n)
            if name == "copy" and isinstance(n.func, ast.Attribute) and not n.args:
                self.add(n.lineno, "unwrap:.copy()", s, e, self.text(n.func.value))
            elif len(n.args) == 1 and not isinstance(n.args[0], ast.Starred) and not isinstance(n.args[0], ast.GeneratorExp):
                if name == "sorted":
                    self.add(n.lineno, "unwrap:sorted->list", s, e, b"list(" + self.text(n.args[0]) + b")")
                elif name in ("set", "frozenset"):
                    self.add(n.lineno, f"unwrap:{name}->list", s, e, b"list(" + self.text(n.args[0]) + b")")
                else:
                    self.add(n.lineno, f"unwrap:{name}", s, e, b"(" + self.text(n.args[0]) + b")")
        for kw in n.keywords:
            if kw.arg == "sort_keys" and isinstance(kw.value, ast.Constant) and kw.value.value is True:
                s, e = self.span(kw.value)
                self.add(n.lineno, "const:sort_keys", s, e, b"False")
        self.generic_visit(n)

    def visit_Raise(self, n):
        s, e = self.span(n)
        self.add(n.lineno, "drop-raise", s, e, b"pass")
        self.quiet += 1
        self.generic_visit(n)
        self.quiet -= 1

    def visit_Assert(self, n):
        return

    def visit_Expr(self, n):
        if isinstance(n.value, ast.Constant):
            return  # docstring
        if isinstance(n.value, ast.Call):
            root = self._root_name(n.value.func)
            if root not in LOGGERS and not (isinstance(n.value.func, ast.Attribute) and n.value.func.attr in ("debug", "info", "warning", "error", "warn", "exception")):
                s, e = self.span(n)
                self.add(n.lineno, "drop-call", s, e, b"pass")
        self.generic_visit(n)

    # -- operators -----------------------------------------------------------------------------
    def visit_Compare(self, n):
        if len(n.ops) == 1:
            old, new = CMP[type(n.ops[0])]
            self.between(n.left, n.comparators[0], n.lineno, f"cmp:{old}->{new}", old, new)
        self.generic_visit(n)

    def visit_BoolOp(self, n):
        old, new = ("and", "or") if isinstance(n.op, ast.And) else ("or", "and")
        for a, b in zip(n.values, n.values[1:]):
            self.between(a, b, n.lineno, f"bool:{old}->{new}", old, new)
        self.generic_visit(n)

    def visit_UnaryOp(self, n):
        if isinstance(n.op, ast.Not):
            s, e = self.span(n)
            self.add(n.lineno, "drop-not", s, e, b"(" + self.text(n.operand) + b")")
        self.generic_visit(n)

    def _negate(self, test, lineno, what):
        if isinstance(test, (ast.Compare, ast.BoolOp)) or (isinstance(test, ast.UnaryOp) and isinstance(test.op, ast.Not)):
            return
        s, e = self.span(test)
        self.add(lineno, f"negate-{what}", s, e, b"not (" + self.text(test) + b")")

    def visit_If(self, n):
        self._negate(n.test, n.lineno, "if")
        self.generic_visit(n)

    def visit_IfExp(self, n):
        self._negate(n.test, n.lineno, "ifexp")
        self.generic_visit(n)

    def visit_While(self, n):
        self.generic_visit(n)

    def visit_comprehension(self, n):
        for c in n.ifs:
            s, e = self.span(c)
            self.add(c.lineno, "comp-filter-off", s, e, b"True")
        self.generic_visit(n)

    def visit_Constant(self, n):
        s, e = self.span(n)
        if n.value is True:
            self.add(n.lineno, "const:True->False", s, e, b"False")
        elif n.value is False:
            self.add(n.lineno, "const:False->True", s, e, b"True")
        elif isinstance(n.value, int) and not isinstance(n.value, bool) and 0 <= n.value <= 64:
            self.add(n.lineno, "const:n+1", s, e, str(n.value + 1).encode())

    def visit_Subscript(self, n):
        sl = n.slice
        if isinstance(sl, ast.Constant) and sl.value == 0 and not isinstance(sl.value, bool):
            s, e = self.span(sl)
            self.add(n.lineno, "index:0->-1", s, e, b"-1")
            self.visit(n.value)
            return
        if isinstance(sl, ast.UnaryOp) and isinstance(sl.op, ast.USub) and isinstance(sl.operand, ast.Constant) and sl.operand.value == 1:
            s, e = self.span(sl)
            self.add(n.lineno, "index:-1->0", s, e, b"0")
            self.visit(n.value)
            return
        self.generic_visit(n)

    def visit_BinOp(self, n):
        if isinstance(n.op, (ast.Add, ast.Sub)) and not isinstance(n.left, ast.Constant) or isinstance(n.op, (ast.Add, ast.Sub)) and isinstance(getattr(n.left, "value", None), (int, float)):
            old, new = ("+", "-") if isinstance(n.op, ast.Add) else ("-", "+")
            self.between(n.left, n.right, n.lineno, f"arith:{old}->{new}", old, new)
        self.generic_visit(n)

    def visit_Break(self, n):
        s, e = self.span(n)
        self.add(n.lineno, "break->continue", s, e, b"continue")

    def visit_Continue(self, n):
        s, e = self.span(n)
        self.add(n.lineno, "continue->break", s, e, b"break")

    def visit_With(self, n):
        if len(n.items) == 1 and n.items[0].optional_vars is None:
            t = self.text(n.items[0].context_expr).decode()
            if "lock" in t.lower() or "cond" in t.lower():
                s = self.off(n.lineno, n.col_offset)
                e = self.span(n.items[0].context_expr)[1]
                self.add(n.lineno, "unlock", s, e, b"if True")
        self.generic_visit(n)

    def visit_Return(self, n):
        self.generic_visit(n)

    def visit_FunctionDef(self, n):
        for d in n.decorator_list:
            pass
        for st in n.body:
            self.visit(st)
        for d in n.args.defaults + [k for k in n.args.kw_defaults if k is not None]:
            self.visit(d)

    visit_AsyncFunctionDef = visit_FunctionDef


def mutants_of(relpath: str):
    src = open(os.path.join(REPO, relpath)).read()
    g = Gen(src)
    g.visit(ast.parse(src))
    out = []
    seen = set()
    for lineno, op, s, e, rep in g.out:
        new = g.b[:s] + rep + g.b[e:]
        try:
            new_s = new.decode()
            ast.parse(new_s)
        except Exception:
            continue
        if new in seen:
            continue
        seen.add(new)
        out.append({"file": relpath, "line": lineno, "op": op, "before": g.b[s:e].decode()[:80], "after": rep.decode()[:80], "_new": new_s})
    return out


_local = threading.local()
_all_dirs = []


def scratch():
    d = getattr(_local, "d", None)
    if d is None:
        d = _local.d = tempfile.mkdtemp(prefix="camp.", dir="/tmp")
        _all_dirs.append(d)
        subprocess.run(["rsync", "-a", "--exclude", ".git", "--exclude", "docs/build", "--exclude", "logs", REPO + "/", d + "/repo/"], check=True)
        os.makedirs(d + "/tmp", exist_ok=True)
    return d


def stage(m, check_jobs_env, checks):
    """Runs both stages for one mutant on this thread's scratch copy."""
    d = scratch()
    target = os.path.join(d, "repo", m["file"])
    orig = open(target).read()
    res = {k: v for k, v in m.items() if not k.startswith("_")}
    try:
        open(target, "w").write(m["_new"])
        for sub in ("tmp",):
            shutil.rmtree(os.path.join(d, sub), ignore_errors=True)
            os.makedirs(os.path.join(d, sub))
        env = dict(os.environ, PYTHONPATH=d + "/repo", TMPDIR=d + "/tmp", PYTHONDONTWRITEBYTECODE="1")
        try:
            p = subprocess.run(["/venv/bin/python", "-m", "pytest", "-x", "-q", "-p", "no:cacheprovider", "--timeout=300", "--deselect", SKIP_TEST],
                               cwd=d + "/repo", env=env, capture_output=True, text=True, timeout=1200)
            res["tests"] = "pass" if p.returncode == 0 else "fail"
            if p.returncode != 0:
                tail = [l for l in p.stdout.splitlines() if l.startswith(("FAILED", "ERROR"))]
                res["tests_first"] = tail[0][:160] if tail else p.stdout.strip().splitlines()[-1][:160] if p.stdout.strip() else ""
        except subprocess.TimeoutExpired:
            res["tests"] = "timeout"
        if res["tests"] != "pass":
            return res
        res["checks"] = {}
        for cid in checks:
            env2 = dict(os.environ, VERIF_REPO=d + "/repo", VERIF_EVIDENCE_DIR=d + "/evidence", VERIF_REPLAY_DIR=d + "/replays",
                        TMPDIR=d + "/tmp", VERIF_JOBS=str(check_jobs_env))
            try:
                p = subprocess.run([os.path.join(ROOT, "check"), cid, "--tier", "quick"], cwd=ROOT, env=env2, capture_output=True, text=True, timeout=3600)
            except subprocess.TimeoutExpired:
                res["checks"][cid] = "timeout"
                continue
            txt = p.stdout + p.stderr
            if p.returncode == 1 and "VIOLATION property=" in txt:
                sig = next((l.strip()[:200] for l in txt.splitlines() if "violation sig=" in l), "")
                res["checks"][cid] = "caught"
                res["sig"] = sig
                break
            elif p.returncode == 0:
                res["checks"][cid] = "silent"
            else:
                res["checks"][cid] = "error:" + (txt.strip().splitlines()[-1][:200] if txt.strip() else str(p.returncode))
        res["verdict"] = "caught" if "caught" in res["checks"].values() else ("error" if any(v.startswith("error") for v in res["checks"].values()) else "survived")
        return res
    finally:
        open(target, "w").write(orig)
        shutil.rmtree(os.path.join(d, "evidence"), ignore_errors=True)
        shutil.rmtree(os.path.join(d, "replays"), ignore_errors=True)


def main():
    ap = argparse.ArgumentParser()
    ap.add_argument("--out", required=True)
    ap.add_argument("--files", nargs="*")
    ap.add_argument("--stride", type=int, default=1)
    ap.add_argument("--offset", type=int, default=0)
    ap.add_argument("--jobs", type=int, default=6)
    ap.add_argument("--check-jobs", type=int, default=3)
    ap.add_argument("--limit", type=int, default=0)
    ap.add_argument("--list", action="store_true")
    ap.add_argument("--lines", help="only mutants at file lines a-b")
    a = ap.parse_args()
    anch = anchored()
    files = a.files or sorted(anch)
    ms = []
    for f in files:
        ms += mutants_of(f)
    if a.lines:
        lo, hi = map(int, a.lines.split("-"))
        ms = [m for m in ms if lo <= m["line"] <= hi]
    ms = ms[a.offset::a.stride]
    if a.limit:
        ms = ms[:a.limit]
    done = set()
    if os.path.exists(a.out):
        for l in open(a.out):
            r = json.loads(l)
            done.add((r["file"], r["line"], r["op"], r["before"], r["after"]))
    ms = [m for m in ms if (m["file"], m["line"], m["op"], m["before"], m["after"]) not in done]
    print(f"{len(ms)} mutants to run ({len(done)} already recorded)", flush=True)
    if a.list:
        for m in ms:
            print(m["file"], m["line"], m["op"], repr(m["before"]), "->", repr(m["after"]))
        return 0
    os.makedirs(os.path.dirname(os.path.abspath(a.out)), exist_ok=True)
    lock = threading.Lock()
    counts = {}
    try:
        with cf.ThreadPoolExecutor(a.jobs) as ex, open(a.out, "a") as fh:
            futs = [ex.submit(stage, m, a.check_jobs, sorted(anch.get(m["file"], []), key=lambda c: COST.get(c, 999))) for m in ms]
            for k, fu in enumerate(cf.as_completed(futs)):
                r = fu.result()
                v = r.get("verdict", "tests-" + r["tests"])
                with lock:
                    counts[v] = counts.get(v, 0) + 1
                    fh.write(json.dumps(r, sort_keys=True) + "\n")
                    fh.flush()
                if v in ("survived", "error") or k % 25 == 0:
                    print(f"[{k + 1}/{len(ms)}] {v:12s} {r['file']}:{r['line']} {r['op']} {r['before']!r} -> {r['after']!r} {r.get('checks', '')}", flush=True)
    finally:
        for d in _all_dirs:
            shutil.rmtree(d, ignore_errors=True)
    print("summary", json.dumps(counts, sort_keys=True))
    return 0


if __name__ == "__main__":
    sys.exit(main())
