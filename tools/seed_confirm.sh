#!/bin/sh
# tools/seed_confirm.sh <seed-dir>  — confirm a seeded change: (1) patch applies, (2) repo tests pass with it,
# (3) demo fails with it, (4) demo passes without it. Works on scratch copies of /repo under /tmp, removed afterwards.
SD="$(realpath "$1")"
D="$(mktemp -d /tmp/seedchk.XXXXXX)"
trap 'rm -rf "$D"' EXIT
mkdir -p "$D/tmp"; export TMPDIR="$D/tmp"   # temp files of the test-suite and the demos go with the scratch copy
rsync -a --exclude .git --exclude docs/build --exclude logs /repo/ "$D/clean/"
rsync -a "$D/clean/" "$D/mut/"
(cd "$D/mut" && patch -p1 -s < "$SD/patch.diff") || { echo "PATCH-FAILED"; exit 2; }
mkdir -p "$D/mut/_seed" "$D/clean/_seed"; cp "$SD/demo.py" "$D/mut/_seed/"; cp "$SD/demo.py" "$D/clean/_seed/"
echo "== tests with patch"
(cd "$D/mut" && PYTHONPATH="$D/mut" timeout 900 /venv/bin/python -m pytest -q -p no:cacheprovider --timeout=900 --deselect tests/test_export_ontology.py::test_export_framework_ontology_script 2>&1 | tail -2)
echo "== demo with patch (expect non-zero)"
(cd "$D/mut" && PYTHONPATH="$D/mut" timeout 300 /venv/bin/python _seed/demo.py >/dev/null 2>&1; echo "exit $?")
echo "== demo without patch (expect 0)"
(cd "$D/clean" && PYTHONPATH="$D/clean" timeout 300 /venv/bin/python _seed/demo.py >/dev/null 2>&1; echo "exit $?")
