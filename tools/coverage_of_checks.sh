#!/bin/sh
# tools/coverage_of_checks.sh <ID>...  — diagnostic: which lines of /repo/semantiva do the quick tiers of these checks execute?
# (main process, pool workers and CLI child processes are all measured through coverage's process_startup hook.)
# Data and the helper sitecustomize live under /tmp/covsite and /tmp/covdata; report: /tmp/covdata/report.txt
set -e
HERE="$(cd "$(dirname "$0")/.." && pwd)"
mkdir -p /tmp/covsite /tmp/covdata
printf 'import coverage\ncoverage.process_startup()\n' > /tmp/covsite/sitecustomize.py
printf '[run]\nparallel = True\nconcurrency = multiprocessing,thread\nsource = /repo/semantiva\ndata_file = /tmp/covdata/.coverage\nsigterm = True\n' > /tmp/covsite/covrc
cd "$HERE"
for ID in "$@"; do
  COVERAGE_PROCESS_START=/tmp/covsite/covrc PYTHONPATH="/tmp/covsite:$HERE:/repo" PYTHONHASHSEED=0 VERIF_REPO=/repo VERIF_EVIDENCE_DIR=/tmp/covdata/evidence \
    VERIF_REPLAY_DIR=/tmp/covdata/replays /venv/bin/python -m mc.run "$ID" --tier quick | tail -1 | cut -c1-160
done
cd /tmp/covdata && /venv/bin/python -m coverage combine --rcfile=/tmp/covsite/covrc -q --keep >/dev/null 2>&1 || true
/venv/bin/python -m coverage report --rcfile=/tmp/covsite/covrc -m > /tmp/covdata/report.txt 2>&1 || true
tail -1 /tmp/covdata/report.txt
