"""Cooperative baton scheduler + preemption-bounded stateless DFS over real Python threads.

Exactly one harness thread runs at a time.  A thread reaches a scheduling point
  (a) at every 'line' trace event inside the traced source files (sys.settrace, per thread), and
  (b) inside every shimmed blocking primitive (CoopLock.acquire on a held lock, wait_until()).
At each point the scheduler (the controlling thread) picks the next thread from the enabled set in
canonical order: the running thread first if still enabled, then ascending thread ids.  Choice 0 at
every point beyond the replayed prefix = "keep running" (non-preemptive default).
"""
from __future__ import annotations

import os
import sys
import threading
from typing import Any, Callable, Dict, List, Optional, Sequence, Tuple

_real_threading = threading


class ReplayDivergence(RuntimeError):
    pass


class Deadlock(Exception):
    pass


class _Kill(BaseException):
    """Raised inside harness threads to unwind them when an execution is abandoned."""


class Point:
    __slots__ = ("enabled", "running_enabled", "chosen", "where")

    def __init__(self, enabled, running_enabled, chosen, where):
        self.enabled = enabled  # list of thread ids in canonical order
        self.running_enabled = running_enabled
        self.chosen = chosen  # index into enabled
        self.where = where


class Execution:
    def __init__(self):
        self.points: List[Point] = []
        self.choices: List[int] = []
        self.trace: List[Tuple[int, str]] = []  # (tid, "file:line") for every step taken
        self.deadlock = False
        self.livelock = False  # the step horizon was exceeded: threads keep running without ever finishing (spinning)
        self.errors: Dict[int, BaseException] = {}
        self.obs: Any = None  # filled by the harness

    def preemptions_before(self, i: int) -> int:
        return sum(1 for p in self.points[:i] if p.chosen != 0 and p.running_enabled)

    def preemptions(self) -> int:
        return self.preemptions_before(len(self.points))


class Scheduler:
    """One execution under one choice prefix."""

    def __init__(self, traced_files: Sequence[str], prefix: Sequence[int], max_steps: int = 20000,
                 policy: Optional[Callable[[List[int], bool, int], int]] = None):
        self.policy = policy  # beyond the replayed prefix: policy(enabled, running_enabled, point_index) -> choice
        self.traced = set(os.path.realpath(f) for f in traced_files)
        self.prefix = list(prefix)
        self.max_steps = max_steps
        self.ctl = _real_threading.Semaphore(0)
        self.threads: Dict[int, _real_threading.Thread] = {}
        self.batons: Dict[int, _real_threading.Semaphore] = {}
        self.state: Dict[int, str] = {}  # "ready" | "blocked" | "waiting" | "done"
        self.block_pred: Dict[int, Callable[[], bool]] = {}
        self.tid_of: Dict[int, int] = {}  # thread ident -> harness tid
        self.current: Optional[int] = None
        self.x = Execution()
        self.killing = False
        self.version = 0  # bumped by shimmed mutations; wakes 'waiting' threads
        self.wait_version: Dict[int, int] = {}
        self._where: Dict[int, str] = {}
        self._is_traced: Dict[str, bool] = {}

    # -- harness API ----------------------------------------------------------------------
    def spawn(self, tid: int, fn: Callable[[], None]) -> None:
        self.batons[tid] = _real_threading.Semaphore(0)
        self.state[tid] = "ready"

        def body():
            self.tid_of[_real_threading.get_ident()] = tid
            self.batons[tid].acquire()
            try:
                if self.killing:
                    return
                if self.traced:
                    sys.settrace(self._global_trace)
                try:
                    fn()
                finally:
                    if self.traced:
                        sys.settrace(None)
            except _Kill:
                pass
            except BaseException as exc:  # recorded, reported by the harness
                self.x.errors[tid] = exc
            finally:
                self.state[tid] = "done"
                self.ctl.release()

        t = _real_threading.Thread(target=body, daemon=True)
        self.threads[tid] = t
        t.start()

    def my_tid(self) -> Optional[int]:
        return self.tid_of.get(_real_threading.get_ident())

    # -- tracing --------------------------------------------------------------------------
    def _global_trace(self, frame, event, arg):
        fn = frame.f_code.co_filename
        hit = self._is_traced.get(fn)
        if hit is None:
            hit = self._is_traced[fn] = (fn in self.traced or os.path.realpath(fn) in self.traced)
        return self._local_trace if hit else None

    def _local_trace(self, frame, event, arg):
        if event == "line":
            self.yield_point(f"{os.path.basename(frame.f_code.co_filename)}:{frame.f_lineno}")
        return self._local_trace

    # -- scheduling points (called from harness threads) -------------------------------------
    def yield_point(self, where: str) -> None:
        tid = self.my_tid()
        if tid is None:
            return
        if self.killing:
            raise _Kill()
        self._where[tid] = where
        self.ctl.release()
        self.batons[tid].acquire()
        if self.killing:
            raise _Kill()

    def block_until(self, pred: Callable[[], bool], where: str, kind: str = "blocked") -> None:
        """Disable the calling thread until pred() holds (evaluated by the scheduler)."""
        tid = self.my_tid()
        if tid is None:
            raise RuntimeError("blocking primitive used outside a scheduled thread")
        while not pred():
            if self.killing:
                raise _Kill()
            self.state[tid] = kind
            self.block_pred[tid] = pred
            self.wait_version[tid] = self.version
            self._where[tid] = where
            self.ctl.release()
            self.batons[tid].acquire()
            if self.killing:
                raise _Kill()
        self.state[tid] = "ready"

    def touch(self) -> None:
        self.version += 1

    # -- controller -----------------------------------------------------------------------
    def _enabled(self) -> List[int]:
        out = []
        for tid in sorted(self.state):
            st = self.state[tid]
            if st == "ready":
                out.append(tid)
            elif st in ("blocked", "waiting"):
                try:
                    ok = self.block_pred[tid]()
                except Exception:
                    ok = True
                if ok:
                    out.append(tid)
        return out

    def run(self) -> Execution:
        x = self.x
        steps = 0
        while True:
            enabled = self._enabled()
            if not enabled:
                if any(st != "done" for st in self.state.values()):
                    x.deadlock = True
                break
            running_enabled = self.current in enabled
            if running_enabled:
                enabled = [self.current] + [t for t in enabled if t != self.current]
            i = len(x.points)
            if i < len(self.prefix):
                c = self.prefix[i]
                if c >= len(enabled):
                    self._kill_all()
                    raise ReplayDivergence(f"choice {c} out of range at point {i} (enabled={enabled})")
            elif self.policy is not None:
                c = self.policy(enabled, running_enabled, i)
            else:
                c = 0
            tid = enabled[c]
            x.points.append(Point(enabled, running_enabled, c, self._where.get(tid, "start")))
            x.choices.append(c)
            x.trace.append((tid, self._where.get(tid, "start")))
            self.current = tid
            if self.state[tid] != "done":
                self.state[tid] = "ready"
            self.batons[tid].release()
            self.ctl.acquire()
            steps += 1
            if steps > self.max_steps:
                x.livelock = True
                self._kill_all()
                return x
        if x.deadlock:
            self._kill_all()
        return x

    def _kill_all(self):
        self.killing = True
        for tid, st in list(self.state.items()):
            if st != "done":
                self.batons[tid].release()
        for t in self.threads.values():
            t.join(timeout=2)


class CoopLock:
    """Replacement for threading.Lock inside the module under test."""

    def __init__(self, sched_getter: Callable[[], Optional[Scheduler]]):
        self._get = sched_getter
        self.owner: Optional[int] = None
        self.acquisitions = 0

    def acquire(self, blocking: bool = True, timeout: float = -1) -> bool:
        s = self._get()
        if s is None or s.my_tid() is None:
            # outside an exploration (e.g. drained by the controller): plain semantics
            if self.owner is not None:
                raise RuntimeError("CoopLock contended outside the scheduler")
            self.owner = -1
            return True
        tid = s.my_tid()
        if self.owner is not None:
            if not blocking:
                return False
            s.block_until(lambda: self.owner is None, "lock.acquire")
        self.owner = tid
        self.acquisitions += 1
        return True

    def release(self) -> None:
        if self.owner is None:
            raise RuntimeError("release unlocked lock")
        self.owner = None
        s = self._get()
        if s is not None:
            s.touch()

    def locked(self) -> bool:
        return self.owner is not None

    def __enter__(self):
        self.acquire()
        return self

    def __exit__(self, *a):
        self.release()


def round_robin(quantum: int, rotation: int) -> Callable[[List[int], bool, int], int]:
    """Deterministic schedule family: run a thread for `quantum` consecutive points, then hand over to the next
    enabled thread id in cyclic order; `rotation` shifts which thread the very first choice falls on."""
    state = {"ran": 0, "first": True}

    def policy(enabled: List[int], running_enabled: bool, i: int) -> int:
        if state["first"]:
            state["first"] = False
            state["ran"] = 1
            return rotation % len(enabled)
        if running_enabled and state["ran"] < quantum:
            state["ran"] += 1
            return 0
        state["ran"] = 1
        if not running_enabled:
            return 0  # canonical order: ascending ids
        cur = enabled[0]
        later = [k for k, t in enumerate(enabled) if k > 0 and t > cur]
        return later[0] if later else (1 if len(enabled) > 1 else 0)

    return policy


def starve(victim: int) -> Callable[[List[int], bool, int], int]:
    """Deterministic schedule: thread `victim` runs only when no other thread is enabled (everything it waits for piles up)."""

    def policy(enabled: List[int], running_enabled: bool, i: int) -> int:
        for k, t in enumerate(enabled):
            if t != victim:
                return k
        return 0

    return policy


# ---------------------------------------------------------------------------------------------
# Stateless DFS with a preemption bound.

class ExploreStats:
    def __init__(self):
        self.executions = 0
        self.points = 0
        self.max_points = 0
        self.by_preemptions: Dict[int, int] = {}
        self.deadlocks = 0
        self.outcomes: Dict[str, int] = {}
        self.rest: List[Tuple[List[int], int]] = []  # unexplored (prefix, start) items handed back when a work budget ran out


def explore(run_one: Callable[[List[int]], Execution], check: Callable[[Execution], Optional[Any]], bound: int,
            roots: Optional[List[List[int]]] = None, stats: Optional[ExploreStats] = None,
            max_executions: Optional[int] = None, outcome_key: Optional[Callable[[Execution], str]] = None, budget: Optional[int] = None):
    """Enumerate every schedule with at most `bound` preemptions.  Returns (stats, failures, capped).

    roots: choice prefixes, or (prefix, start) items as handed back in stats.rest.  budget: after that many executions the still
    unexplored part of the search stack is returned in stats.rest instead of being explored here (work splitting: the caller submits
    those items as further tasks; nothing is dropped)."""
    stats = stats or ExploreStats()
    failures: List[Tuple[List[int], int, Any]] = []
    stack: List[Tuple[List[int], int]] = [((list(r[0]), int(r[1])) if (isinstance(r, (tuple, list)) and len(r) == 2 and isinstance(r[0], (list, tuple)))
                                           else (list(r), len(r))) for r in (roots if roots is not None else [[]])]
    capped = False
    while stack:
        if budget is not None and stats.executions >= budget:
            stats.rest = stack
            break
        prefix, start = stack.pop()
        x = run_one(prefix)
        stats.executions += 1
        stats.points += len(x.points)
        stats.max_points = max(stats.max_points, len(x.points))
        np_ = x.preemptions()
        stats.by_preemptions[np_] = stats.by_preemptions.get(np_, 0) + 1
        if x.deadlock:
            stats.deadlocks += 1
        if outcome_key is not None:
            k = outcome_key(x)
            stats.outcomes[k] = stats.outcomes.get(k, 0) + 1
        bad = check(x)
        if bad is not None:
            failures.append((list(x.choices), np_, bad))
        if max_executions is not None and stats.executions >= max_executions:
            capped = bool(stack)
            break
        if x.livelock:
            continue  # ran into the step horizon: reported by check(); its tens of thousands of points are not branched from
        pre = x.preemptions_before(start)
        for i in range(start, len(x.points)):
            p = x.points[i]
            cost = pre + (1 if p.running_enabled else 0)
            if cost <= bound:
                for alt in range(1, len(p.enabled)):
                    stack.append((x.choices[:i] + [alt], i + 1))
            if p.chosen != 0 and p.running_enabled:
                pre += 1
    return stats, failures, capped
