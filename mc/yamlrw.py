"""Meaning-preserving YAML rewrites and single-point semantic mutations of configurations.

A configuration is a plain Python structure (dict / list / scalars).  emit(obj, choices) renders YAML text
under a map of per-path style choices; every rewrite is validated by strict_equal(yaml.safe_load(text), obj)
(type-strict, dict order ignored), so a rewrite that is not meaning-preserving can never reach an oracle.
"""
from __future__ import annotations

import ast
import copy
import itertools
import json
from typing import Any, Callable, Dict, Iterable, Iterator, List, Optional, Sequence, Tuple

import yaml

Path = Tuple[Any, ...]


def strict_equal(a: Any, b: Any) -> bool:
    if type(a) is not type(b):
        return False
    if isinstance(a, dict):
        return set(a) == set(b) and all(strict_equal(a[k], b[k]) for k in a)
    if isinstance(a, list):
        return len(a) == len(b) and all(strict_equal(x, y) for x, y in zip(a, b))
    if isinstance(a, float):
        return (a != a and b != b) or (a == b and str(a) == str(b))  # NaN is NaN; -0.0 is not 0.0
    return a == b


def walk(obj: Any, path: Path = ()) -> Iterator[Tuple[Path, Any]]:
    yield path, obj
    if isinstance(obj, dict):
        for k, v in obj.items():
            yield from walk(v, path + (k,))
    elif isinstance(obj, list):
        for i, v in enumerate(obj):
            yield from walk(v, path + (i,))


def get(obj: Any, path: Path) -> Any:
    for p in path:
        obj = obj[p]
    return obj


def set_(obj: Any, path: Path, value: Any) -> Any:
    obj = copy.deepcopy(obj)
    if not path:
        return value
    cur = obj
    for p in path[:-1]:
        cur = cur[p]
    cur[path[-1]] = value
    return obj


def delete(obj: Any, path: Path) -> Any:
    obj = copy.deepcopy(obj)
    cur = obj
    for p in path[:-1]:
        cur = cur[p]
    del cur[path[-1]]
    return obj


# ---------------------------------------------------------------------------------------------------------
# Emitter: PyYAML nodes built by hand so that style can be chosen per path.

def _scalar_node(v: Any, spelling: Optional[str], quote: Optional[str]) -> yaml.Node:
    if isinstance(v, bool):
        return yaml.ScalarNode("tag:yaml.org,2002:bool", spelling or ("true" if v else "false"))
    if v is None:
        return yaml.ScalarNode("tag:yaml.org,2002:null", spelling if spelling is not None else "null")
    if isinstance(v, int):
        return yaml.ScalarNode("tag:yaml.org,2002:int", spelling or str(v))
    if isinstance(v, float):
        return yaml.ScalarNode("tag:yaml.org,2002:float", spelling or _float_text(v))
    if isinstance(v, str):
        style = quote  # None (plain if possible) | "'" | '"'
        node = yaml.ScalarNode("tag:yaml.org,2002:str", v, style=style)
        return node
    raise TypeError(type(v))


def build_node(obj: Any, choices: Dict[Path, dict], path: Path = (), anchors: Optional[Dict[str, yaml.Node]] = None) -> yaml.Node:
    ch = choices.get(path, {})
    if anchors is not None and isinstance(obj, (dict, list)) and obj:
        key = json.dumps(obj, sort_keys=True, default=repr)
        if key in anchors:
            return anchors[key]  # same node object => emitted as alias
    if isinstance(obj, dict):
        keys = list(obj)
        order = ch.get("order")
        if order == "reverse":
            keys = keys[::-1]
        elif order == "rotate":
            keys = keys[1:] + keys[:1]
        elif order == "sorted":
            keys = sorted(keys, key=str)
        elif isinstance(order, (list, tuple)):
            keys = list(order)
        value = []
        node = yaml.MappingNode("tag:yaml.org,2002:map", value, flow_style=ch.get("flow", choices.get("*flow", False)))
        for k in keys:
            kn = _scalar_node(k, None, choices.get(path + (k, "@key"), {}).get("quote"))
            value.append((kn, build_node(obj[k], choices, path + (k,), anchors)))
    elif isinstance(obj, list):
        value = []
        node = yaml.SequenceNode("tag:yaml.org,2002:seq", value, flow_style=ch.get("flow", choices.get("*flow", False)))
        for i, v in enumerate(obj):
            value.append(build_node(v, choices, path + (i,), anchors))
    else:
        node = _scalar_node(obj, ch.get("spelling"), ch.get("quote"))
        # plain strings that would resolve to another type must be quoted
        if isinstance(obj, str) and ch.get("quote") is None:
            try:
                if not isinstance(yaml.safe_load(obj if obj.strip() else "''"), str) or obj != obj.strip() or obj == "" or any(c in obj for c in ":#{}[],&*!|>'\"%@`\n"):
                    node.style = "'" if "'" not in obj else '"'
            except Exception:
                node.style = '"'
    if anchors is not None and isinstance(obj, (dict, list)) and obj and ch.get("anchor"):
        anchors[json.dumps(obj, sort_keys=True, default=repr)] = node
    return node


def emit(obj: Any, choices: Optional[Dict[Path, dict]] = None, indent: int = 2, comments: bool = False, use_anchors: bool = False,
         width: int = 80) -> str:
    choices = choices or {}
    anchors: Optional[Dict[str, yaml.Node]] = {} if use_anchors else None
    if use_anchors:
        # anchor every repeated non-empty container subtree
        seen: Dict[str, int] = {}
        for p, v in walk(obj):
            if isinstance(v, (dict, list)) and v:
                k = json.dumps(v, sort_keys=True, default=repr)
                seen[k] = seen.get(k, 0) + 1
        choices = dict(choices)
        for p, v in walk(obj):
            if isinstance(v, (dict, list)) and v and seen[json.dumps(v, sort_keys=True, default=repr)] > 1:
                c = dict(choices.get(p, {}))
                c["anchor"] = True
                choices[p] = c
    node = build_node(obj, choices, (), anchors)
    text = yaml.serialize(node, Dumper=yaml.SafeDumper, indent=indent, width=width, allow_unicode=True)
    if comments:
        lines = text.split("\n")
        out = ["# generated variant", ""]
        for i, l in enumerate(lines):
            out.append(l + ("   # c%d" % i if l.strip() and not l.strip().endswith(("|", ">")) and i % 3 == 0 and '"' not in l and "'" not in l else ""))
            if i % 4 == 1:
                out.append("")
        text = "\n".join(out)
    return text


def _float_text(v: float) -> str:
    return ".nan" if v != v else ".inf" if v == float("inf") else "-.inf" if v == float("-inf") else repr(v)


def _float_spellings(v: float) -> List[str]:
    if v != v:
        return [".NaN", ".NAN"]
    if v in (float("inf"), float("-inf")):
        return [".Inf", ".INF", "+.inf"] if v > 0 else ["-.Inf", "-.INF"]
    return [s for s in (repr(v) + "0", ("%.1fe+1" % (v / 10.0)) if v == float("%.1fe+1" % (v / 10.0)) else None, "+" + repr(v) if (v >= 0 and str(v)[0] != "-") else None) if s]


SPELLINGS = {
    float: _float_spellings,
    "unused": lambda v: [s for s in (repr(v) + "0", ("%.1fe+1" % (v / 10.0)) if v == float("%.1fe+1" % (v / 10.0)) else None, "+" + repr(v) if v >= 0 else None) if s],
    int: lambda v: [s for s in (hex(v) if v >= 0 else None, "0" + oct(v)[2:] if v > 7 else None, "+%d" % v if v >= 0 else None) if s],
    bool: lambda v: ["yes", "True", "on"] if v else ["no", "False", "off"],
    type(None): lambda v: ["~", "Null", ""],
}


def rewrites(obj: Any, thorough: bool = False) -> Iterator[Tuple[str, str]]:
    """Yield (label, yaml text) for every single meaning-preserving rewrite (each validated)."""
    base_choices: Dict[Path, dict] = {}

    def ok(label: str, text: str):
        try:
            back = yaml.safe_load(text)
        except Exception:
            return None
        return (label, text) if strict_equal(back, obj) else None

    cands: List[Tuple[str, str]] = []
    cands.append(("block", emit(obj)))
    cands.append(("flow-all", emit(obj, {"*flow": True})))
    cands.append(("indent4", emit(obj, indent=4)))
    cands.append(("comments", emit(obj, comments=True)))
    cands.append(("anchors", emit(obj, use_anchors=True)))
    cands.append(("narrow", emit(obj, width=30)))
    for path, v in walk(obj):
        ps = "/".join(map(str, path))
        if isinstance(v, dict) and len(v) > 1:
            cands.append((f"order-reverse@{ps}", emit(obj, {path: {"order": "reverse"}})))
            cands.append((f"order-sorted@{ps}", emit(obj, {path: {"order": "sorted"}})))
            if len(v) > 2:
                cands.append((f"order-rotate@{ps}", emit(obj, {path: {"order": "rotate"}})))
            if len(v) <= 3 and thorough:
                for perm in itertools.permutations(list(v)):
                    cands.append((f"order-perm{list(perm)}@{ps}", emit(obj, {path: {"order": list(perm)}})))
        if isinstance(v, (dict, list)) and v and path:
            cands.append((f"flow@{ps}", emit(obj, {path: {"flow": True}})))
        if isinstance(v, str):
            for q in ("'", '"'):
                cands.append((f"quote{q}@{ps}", emit(obj, {path: {"quote": q}})))
        if type(v) in SPELLINGS and not isinstance(v, str):
            for sp in SPELLINGS[type(v)](v):
                cands.append((f"spelling[{sp}]@{ps}", emit(obj, {path: {"spelling": sp}})))
    seen = set()
    for label, text in cands:
        r = ok(label, text)
        if r and text not in seen:
            seen.add(text)
            yield r


def pair_rewrites(obj: Any, limit: int = 40) -> Iterator[Tuple[str, str]]:
    """Pairs of single rewrites at different positions (choices merged)."""
    singles: List[Tuple[str, Path, dict]] = []
    for path, v in walk(obj):
        if isinstance(v, dict) and len(v) > 1:
            singles.append(("order-reverse", path, {"order": "reverse"}))
        if isinstance(v, (dict, list)) and v and path:
            singles.append(("flow", path, {"flow": True}))
        if isinstance(v, str):
            singles.append(("quote", path, {"quote": '"'}))
        if type(v) in SPELLINGS and not isinstance(v, str):
            sp = SPELLINGS[type(v)](v)
            if sp:
                singles.append(("spelling", path, {"spelling": sp[0]}))
    n = 0
    for (l1, p1, c1), (l2, p2, c2) in itertools.combinations(singles, 2):
        if p1 == p2:
            continue
        text = emit(obj, {p1: c1, p2: c2}, comments=(n % 2 == 0), indent=2 + 2 * (n % 2))
        try:
            if strict_equal(yaml.safe_load(text), obj):
                yield (f"{l1}@{'/'.join(map(str, p1))}+{l2}@{'/'.join(map(str, p2))}", text)
                n += 1
        except Exception:
            pass
        if n >= limit:
            return


# ---------------------------------------------------------------------------------------------------------
# + / * chain rearrangements of sweep expressions

def expr_rearrangements(expr: str, limit: int = 24) -> List[str]:
    """Rearrangements of + / * chains (operand permutations x bracketings), one chain at a time, at any depth.

    All results are semantically equal to `expr` in exact arithmetic."""
    tree = ast.parse(expr, mode="eval").body

    def flatten(n: ast.AST, op_type) -> List[ast.AST]:
        if isinstance(n, ast.BinOp) and type(n.op) is op_type:
            return flatten(n.left, op_type) + flatten(n.right, op_type)
        return [n]

    def build(terms: List[ast.AST], op_type) -> ast.AST:
        cur = terms[0]
        for t in terms[1:]:
            cur = ast.BinOp(left=cur, op=op_type(), right=t)
        return cur

    def variants(n: ast.AST) -> List[ast.AST]:
        res: List[ast.AST] = []
        if isinstance(n, ast.BinOp) and isinstance(n.op, (ast.Add, ast.Mult)):
            op_type = type(n.op)
            terms = flatten(n, op_type)
            if len(terms) <= 4:
                for perm in itertools.permutations(terms):
                    res.extend(_bracketings(list(perm), op_type))
            else:
                # long chains: a fixed family instead of all permutations — reversed, rotated, ends swapped, folded from the right,
                # split in two parenthesised halves
                def fold_right(ts):
                    cur = ts[-1]
                    for t in reversed(ts[:-1]):
                        cur = ast.BinOp(left=t, op=op_type(), right=cur)
                    return cur
                half = len(terms) // 2
                res.extend([build(list(reversed(terms)), op_type), build(terms[1:] + terms[:1], op_type), build([terms[-1]] + terms[1:-1] + [terms[0]], op_type),
                            fold_right(terms), ast.BinOp(left=build(terms[half:], op_type), op=op_type(), right=build(terms[:half], op_type))])
            for i, t in enumerate(terms):
                for v in variants(t):
                    res.append(build(terms[:i] + [v] + terms[i + 1:], op_type))
            return res
        for field, value in ast.iter_fields(n):
            if isinstance(value, ast.expr):
                for v in variants(value):
                    c = copy.copy(n)
                    setattr(c, field, v)
                    res.append(c)
            elif isinstance(value, list):
                for i, item in enumerate(value):
                    if isinstance(item, ast.expr):
                        for v in variants(item):
                            c = copy.copy(n)
                            setattr(c, field, value[:i] + [v] + value[i + 1:])
                            res.append(c)
        return res

    out = set()
    for v in variants(tree):
        try:
            out.add(ast.unparse(ast.fix_missing_locations(ast.Expression(body=copy.deepcopy(v)))))
        except Exception:
            continue
    out.discard(expr)
    out.discard(ast.unparse(tree))
    res = sorted(out, key=lambda t: (len(t), t))
    step = max(1, len(res) // limit)
    return res[::step][:limit]


def _bracketings(ops: List[ast.AST], op_type) -> Iterator[ast.AST]:
    if len(ops) == 1:
        yield ops[0]
        return
    for i in range(1, len(ops)):
        for l in _bracketings(ops[:i], op_type):
            for r in _bracketings(ops[i:], op_type):
                yield ast.BinOp(left=l, op=op_type(), right=r)


# ---------------------------------------------------------------------------------------------------------
# Single-point semantic mutations

def type_mutants(v: Any) -> List[Any]:
    """Values that compare == to v but are another value in the configuration language: 2 / 2.0, True / 1, 0.0 / -0.0."""
    if isinstance(v, bool):
        return [int(v)]
    if isinstance(v, int):
        return [float(v)] + ([bool(v)] if v in (0, 1) else [])
    if isinstance(v, float) and v == v and v not in (float("inf"), float("-inf")):
        out: List[Any] = [int(v)] if v.is_integer() and abs(v) < 1e15 and not (v == 0.0 and str(v).startswith("-")) else []
        if v == 0.0:
            out.append(-v)
        return out
    return []


def ulp_mutants(v: Any) -> List[Any]:
    """The nearest other float: a different value, however small the difference."""
    import math

    if isinstance(v, float) and v == v and v not in (float("inf"), float("-inf")):
        return [math.nextafter(v, math.inf)] + ([1e-13] if v == 0.0 else [])
    return []


def scalar_mutants(v: Any) -> List[Any]:
    if isinstance(v, bool):
        return [not v]
    if isinstance(v, int):
        return [v + 1]
    if isinstance(v, float):
        return [v + 0.5] if v == v and v not in (float("inf"), float("-inf")) else [1.0]
    if isinstance(v, str):
        return [v + "_x"]
    if v is None:
        return [0]
    return []
