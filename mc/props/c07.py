"""C07 — what a Semantic Execution Record says about its node is true.

For every traced run of the enumerated programs, each SER is compared with the independent account of
the same run: the reference interpreter's per-node resolution table, context diffs and states (bound to
the implementation by C01), the processors' own execution log, and the harness's wall-clock bracket —
under four host time zones.
"""
from __future__ import annotations

import calendar
import os
import re
import time
from typing import Any, Dict, List, Optional, Tuple

from mc import core, gen, harness, traces
from mc.core import Result, Violation
from mc.props.c06 import ALPHA_FULL, ALPHA_SMALL, SAME_FAMILY_PROGS, first_accepted_kind
from mc.ref import interp

# fixed offsets east and west, a quarter-hour offset, and two zones in which daylight-saving time is in force (time.timezone, the
# STANDARD offset, is then not the current offset): a POSIX rule that is in DST all year, and a real zone
TZS = ["UTC", "Asia/Tokyo", "Etc/GMT+8", "Asia/Kathmandu", "XST8XDT,J1/0,J365/23", "Australia/Lord_Howe"]
_TS = re.compile(r"^(\d{4})-(\d{2})-(\d{2})T(\d{2}):(\d{2}):(\d{2})(\.\d+)?(Z|[+-]\d{2}:\d{2})$")

EXPECTED_REF_NAME = {
    "source": lambda sym: sym["node"]["processor"], "paysource": lambda sym: "VPaySrc",
    "op": lambda sym: sym["proc"], "probe": lambda sym: sym["proc"], "sink": lambda sym: sym["proc"],
    "slicer_op": lambda sym: "SlicerFor" + sym["proc"], "slicer_probe": lambda sym: "SlicerFor" + sym["proc"],
    "sweep_src": lambda sym: sym["proc"] + "ParametricSweep", "sweep_op": lambda sym: sym["proc"] + "ParametricSweep",
    "sweep_probe": lambda sym: sym["proc"] + "ParametricSweep",
}


def set_tz(tz: str):
    os.environ["TZ"] = tz
    time.tzset()


def to_epoch(ts: str) -> Optional[float]:
    """RFC 3339 -> UTC epoch seconds (None if not parseable)."""
    m = _TS.match(ts) if isinstance(ts, str) else None
    if not m:
        return None
    y, mo, d, h, mi, s = (int(m.group(i)) for i in range(1, 7))
    frac = float(m.group(7)) if m.group(7) else 0.0
    t = calendar.timegm((y, mo, d, h, mi, s, 0, 0, 0)) + frac
    off = m.group(8)
    if off != "Z":
        sign = 1 if off[0] == "+" else -1
        t -= sign * (int(off[1:3]) * 3600 + int(off[4:6]) * 60)
    return t


def ctx_processor_name(sym: dict) -> str:
    if sym["op"] == "rename":
        return f"Rename_{sym['src']}_to_{sym['dst']}"
    if sym["op"] == "delete":
        return f"Delete_{sym['src']}"
    return f"Template_{sym['dst']}"


def strict_differs(a: Any, b: Any) -> bool:
    """The 'actual difference' of two context values is judged on content INCLUDING type and representation (2 vs 2.0, True vs 1,
    0.0 vs -0.0 are different contents — they serialise and hash differently), not with ==; equal nested mappings in another
    key order are the same content."""
    import json as _json

    return _json.dumps(core.jsonable(a), sort_keys=True, default=repr) != _json.dumps(core.jsonable(b), sort_keys=True, default=repr)


def jsonable_equal(a: Any, b: Any) -> bool:
    """a: what the SER shows; b: the value actually passed.  A value JSON cannot carry is shown as its repr."""
    import json as _json

    if core.same(a, b):
        return True
    try:
        _json.dumps(b, sort_keys=True)
    except Exception:
        return isinstance(a, str) and (a == repr(b) or (a.endswith("…") and repr(b).startswith(a[:-1])))
    return core.same(a, _json.loads(_json.dumps(b)))  # tuples come back as lists


def judge_run(prog, ctx, detail, tz, scratch, digests: Dict[str, Dict[str, str]], pipeline=None) -> Tuple[Optional[Tuple[str, str]], dict]:
    dkind = first_accepted_kind(prog)
    ref = interp.run(prog, gen.ref_data(dkind), ctx)
    t0 = time.time()
    try:
        records, files, real, pipe, driver = traces.traced_single(prog, dkind, ctx, detail=detail, mode="file", scratch=scratch, pipeline=pipeline)
    except traces.TraceUnreadable as exc:
        return ("trace-not-parsable", f"the trace file cannot be read back as JSON lines: {exc}"), {"class": f"{ref.status}:{ref.error}", "sers": 0}
    except Exception as exc:
        if not (ref.status == "construct" and ref.error == type(exc).__name__):
            return ("loader-or-driver-refuses-valid-configuration", f"{type(exc).__name__}: {str(exc)[:200]} (reference: {ref.status} {ref.error})"), {"class": "loader-rejects", "sers": 0}
        return None, {"class": "loader-rejects"}
    t1 = time.time()
    info = {"class": f"{ref.status}:{ref.error}", "sers": 0, "pipeline": pipe}
    sers = [r for r in records if r.get("record_type") == "ser"]
    info["sers"] = len(sers)
    # ---- timestamps: true UTC instants, RFC 3339, non-decreasing -------------------------------------------
    seq: List[Tuple[str, str]] = []
    for r in records:
        if r.get("record_type") == "ser":
            seq.append(("ser.started_at", r["timing"]["started_at"]))
            seq.append(("ser.finished_at", r["timing"]["finished_at"]))
        else:
            seq.append((r["record_type"] + ".timestamp", r.get("timestamp")))
    last = None
    for name, ts in seq:
        e = to_epoch(ts)
        if e is None:
            return ("timestamp-not-rfc3339", f"{name}={ts!r}"), info
        if not (t0 - 0.002 <= e <= t1 + 0.002):
            return ("timestamp-not-utc-instant", f"{name}={ts!r} denotes epoch {e:.3f}; the run happened in [{t0:.3f}, {t1:.3f}] UTC (host TZ={tz}, off by {e - t0:+.0f}s)"), info
        if last is not None and e < last - 1e-9:
            return ("timestamps-decrease", f"{name}={ts!r} is earlier than the previous timestamp in the stream"), info
        last = e
    # ---- per SER ------------------------------------------------------------------------------------------------
    pre_ctx = dict(ctx)
    pre_data = gen.ref_data(dkind)
    prev_out_digest = None
    prev_post_ctx_digest = None
    for i, s in enumerate(sers):
        sym = gen.SYMBOLS[prog[i]]
        kind = sym["kind"]
        failing = (ref.status == "fail" and i == ref.index)
        post_ctx = dict(ref.ctx) if failing else dict(ref.states[i][1])
        post_data = pre_data if failing else ref.states[i][0]
        where = f"SER {i} ({prog[i]})"
        # (a) context delta
        created = sorted(k for k in post_ctx if k not in pre_ctx)
        updated = sorted(k for k in post_ctx if k in pre_ctx and strict_differs(post_ctx[k], pre_ctx[k]))
        cd = s["context_delta"]
        if sorted(cd["created_keys"]) != created or sorted(cd["updated_keys"]) != updated:
            return ("wrong-context-delta", f"{where}: created={cd['created_keys']} updated={cd['updated_keys']}; actual created={created} updated={updated}"), info
        # (b) processor.ref
        want_name = ctx_processor_name(sym) if kind == "ctx" else EXPECTED_REF_NAME[kind](sym)
        alt = {"slicer_op": "SlicingDataOperator", "slicer_probe": "SlicingDataProbe", "sweep_src": "ParametricSweepSource",
               "sweep_op": "ParametricSweepOperation", "sweep_probe": "ParametricSweepProbe"}.get(kind)
        if s["processor"]["ref"].split(".")[-1] not in (want_name, alt):  # __name__ or __qualname__ of the class that ran
            return ("wrong-processor-ref", f"{where}: processor.ref={s['processor']['ref']} but {want_name} ran"), info
        # (c) parameters and sources: every parameter the node resolved
        table = ref.table[i] if i < len(ref.table) else {}
        if failing and ref.error == "TypeError" and pre_data[0] != sym.get("in", interp.INPUT_KIND.get(kind, pre_data[0])):
            table = {}  # type gate fired before any parameter was resolved
        params, sources = s["processor"]["parameters"], s["processor"]["parameter_sources"]
        for name, (value, channel) in table.items():
            if name not in params or name not in sources:
                return (f"parameter-missing-from-ser|{channel}", f"{where}: resolved parameter {name}={value!r} (from {channel}) is absent from processor.parameters / parameter_sources {params} {sources}"), info
            if sources[name] != channel:
                return (f"wrong-parameter-source|{channel}-reported-as-{sources[name]}", f"{where}: parameter {name} came from {channel} (value {value!r}) but the SER says {sources[name]} (value {params[name]!r})"), info
            if not jsonable_equal(params[name], value):
                return ("wrong-parameter-value", f"{where}: parameter {name} was {value!r}, SER says {params[name]!r}"), info
        # (d) built-in checks
        pre = {c["code"]: c for c in s["assertions"]["preconditions"]}
        post = {c["code"]: c for c in s["assertions"]["postconditions"]}
        needed = [n for n, d in sym["params"] if n not in sym["cfg"] and d == gen.NODEF]
        cond = all(n in pre_ctx for n in needed)
        if (pre["required_keys_present"]["result"] == "PASS") != cond:
            return ("wrong-check-required-keys", f"{where}: required_keys_present={pre['required_keys_present']} but required {needed} vs context keys {sorted(pre_ctx)}"), info
        accepts = (kind == "ctx") or pre_data[0] == sym.get("in", interp.INPUT_KIND[kind])
        if (pre["input_type_ok"]["result"] == "PASS") != accepts:
            return (f"wrong-check-input-type|{kind}|{pre_data[0]}", f"{where}: input_type_ok={pre['input_type_ok']} but the node {'accepts' if accepts else 'rejects'} input {pre_data}"), info
        if not failing:
            if post["output_type_ok"]["result"] != "PASS":
                return (f"wrong-check-output-type|{kind}", f"{where}: output_type_ok={post['output_type_ok']} although the node produced {post_data}"), info
            if post["context_writes_realized"]["result"] != "PASS":
                return ("wrong-check-context-writes", f"{where}: {post['context_writes_realized']}"), info
        # (e) digests are functions of content and chain from node to node
        sm = s.get("summaries") or {}
        if "input_data" in sm and "sha256" in sm["input_data"]:
            ind, outd = sm["input_data"]["sha256"], (sm.get("output_data") or {}).get("sha256")
            if prev_out_digest is not None and ind != prev_out_digest:
                return ("digest-chain-broken", f"{where}: input digest {ind} != previous node's output digest {prev_out_digest}"), info
            for content, dg in ((pre_data, ind), (post_data, outd)):
                if dg is None:
                    continue
                key = repr(content)
                old = digests["data"].setdefault(key, dg)
                if old != dg:
                    return ("digest-not-function-of-content", f"{where}: data {content} hashed to {dg} here and to {old} elsewhere"), info
            prev_out_digest = outd
            pc, qc = (sm.get("pre_context") or {}).get("sha256"), (sm.get("post_context") or {}).get("sha256")
            if prev_post_ctx_digest is not None and pc is not None and pc != prev_post_ctx_digest:
                return ("digest-chain-broken", f"{where}: pre_context digest differs from the previous node's post_context digest"), info
            for content, dg in ((pre_ctx, pc), (post_ctx, qc)):
                if dg is None:
                    continue
                key = core.sha(content)  # canonical: equal content (whatever the insertion order at any depth) => same key
                old = digests["ctx"].setdefault(key, dg)
                if old != dg:
                    return ("digest-not-function-of-content", f"{where}: context {content} hashed to {dg} here and to {old} elsewhere"), info
            prev_post_ctx_digest = qc
        # (f) durations
        if s["timing"]["wall_ms"] < 0 or s["timing"].get("cpu_ms", 0) < 0:
            return ("negative-duration", f"{where}: {s['timing']}"), info
        # sound bounds only (wall_ms and the two timestamps are taken at slightly different moments, so they need not agree with each
        # other): no node took longer than the whole run, and a node that slept n seconds took at least that long
        if s["timing"]["wall_ms"] > (t1 - t0) * 1000.0 + 5.0:
            return ("duration-longer-than-the-run", f"{where}: wall_ms={s['timing']['wall_ms']} but the whole run took {(t1 - t0) * 1000.0:.0f} ms"), info
        slept = sym["cfg"].get("seconds") if sym.get("proc") == "VSleep" else None
        if slept is not None and not failing and s["timing"]["wall_ms"] < slept * 1000.0 - 5.0:
            return ("duration-shorter-than-the-node-took", f"{where}: the node slept {slept} s, wall_ms={s['timing']['wall_ms']}"), info
        if s["status"] != ("error" if failing else "succeeded"):
            return ("wrong-status", f"{where}: status {s['status']}"), info
        pre_ctx, pre_data = post_ctx, post_data
    return None, info


def inplace_digest_cases(scratch) -> Tuple[int, List[Tuple[str, str, dict]]]:
    """Beyond the small scope: collections of 8 ... 300 elements handed to a pipeline, changed IN PLACE by the caller (same object, same
    length) and handed over again, then a fresh object of the changed content: a digest is a function of the content — the changed
    content hashes like the fresh object, not like the object's earlier content."""
    from semantiva.examples.test_utils import FloatDataCollection, FloatDataType
    from semantiva.pipeline import Pipeline

    viols: List[Tuple[str, str, dict]] = []
    n = 0
    prog = ("slice_mul3", "sum")
    cfg = harness.load_config(gen.yaml_config(prog))

    def run(data):
        harness.clear_dir(scratch)
        tp = os.path.join(scratch, "t.ser.jsonl")
        from semantiva.trace.drivers.jsonl import JsonlTraceDriver

        pipe = Pipeline(cfg.nodes, trace=JsonlTraceDriver(tp, detail="hash"))
        harness.run_pipeline(pipe, data, {}, None)
        from mc import cli as _cli

        recs, _ = _cli.collect_trace(tp)
        sers = [r for r in recs if r.get("record_type") == "ser"]
        return [((s_.get("summaries") or {}).get("input_data") or {}).get("sha256") for s_ in sers], [((s_.get("summaries") or {}).get("output_data") or {}).get("sha256") for s_ in sers]

    for size in (8, 127, 128, 200, 300):
        vals = [float(i % 17) + i * 0.5 for i in range(size)]
        x = FloatDataCollection.from_list([FloatDataType(v) for v in vals])
        in1, out1 = run(x)
        x.data[0] = FloatDataType(-5.0)      # the caller edits its own object between two runs
        x.data[size - 1] = FloatDataType(77.25)
        in2, out2 = run(x)
        vals2 = [-5.0] + vals[1:-1] + [77.25]
        in3, out3 = run(FloatDataCollection.from_list([FloatDataType(v) for v in vals2]))
        n += 3
        case = {"kind": "inplace", "size": size}
        if in2[0] == in1[0]:
            viols.append(("digest-not-function-of-content|stale-after-in-place-change", f"a {size}-element collection changed in place keeps its input digest {in1[0]}", case))
        elif in2 != in3 or out2 != out3:
            viols.append(("digest-not-function-of-content|stale-after-in-place-change", f"{size} elements: the changed object hashes to {in2} / {out2}, a fresh object of the same content to {in3} / {out3}", case))
    return n, viols


def contexts_c07(prog) -> List[Dict[str, Any]]:
    """Every parameter placement: empty, full, and each single readable key alone (default overridden by context etc.)."""
    ks = [k for k in gen.read_keys(prog) if k not in ("b", "t_values")]
    out = [{}]
    if ks:
        out.append({k: gen.KEY_VALUES.get(k, 0.0625) for k in ks})
        if len(ks) > 1:
            for k in ks[:3]:
                out.append({k: gen.KEY_VALUES.get(k, 0.0625)})
    out.append({"zz": 0.125})
    if len(prog) <= 2:
        out.append(dict(gen.WIDE_CONTEXT))  # 200 keys: more than any truncation threshold of the context summaries
    # a key that a node will (re)write, present beforehand with a value that is == to what will be written but of another type
    # (2 for 2.0, True for 1.0): the write is an update
    try:
        dk = first_accepted_kind(prog)
        fin = interp.run(prog, gen.ref_data(dk), {})
        if fin.status == "ok":
            for k, v in fin.ctx.items():
                if isinstance(v, float) and v.is_integer():
                    out.append({k: int(v)})
                    if v == 1.0:
                        out.append({k: True})
    except Exception:
        pass
    return out


def _worker(chunk):
    harness.quiet()
    scratch = harness.enter_scratch()
    digests: Dict[str, Dict[str, str]] = {"data": {}, "ctx": {}}
    out = {"n": 0, "sers": 0, "viol": [], "classes": {}, "nontrivial": set(), "digests": None, "sample": None}
    for prog, detail, tz in chunk:
        set_tz(tz)
        if detail.startswith("history:"):
            # several runs on ONE Pipeline object: every run's SERs must be true of THAT run
            detail = detail.split(":", 1)[1]
            cs = [c for c in contexts_c07(prog) if "zz" not in c][:3]
            for a in cs:
                for b in cs:
                    pipe = None
                    for k, ctx in enumerate((a, b)):
                        bad, info = judge_run(prog, ctx, detail, tz, scratch, digests, pipeline=pipe)
                        pipe = info.get("pipeline")
                        out["n"] += 1
                        out["sers"] += info.get("sers", 0)
                        if bad:
                            out["viol"].append((bad[0] + ("|second-run-on-same-pipeline" if k else ""),
                                                f"{list(prog)} contexts {a} then {b} on one Pipeline object, run {k}, detail={detail} TZ={tz}: {bad[1]}",
                                                {"prog": list(prog), "ctx": ctx, "detail": detail, "tz": tz, "history": [a, b]}))
                            break
            continue
        menu_ctxs: List[Tuple[Dict[str, Any], Optional[list]]] = [(c, None) for c in contexts_c07(prog)]
        if len(prog) <= 2:
            from mc.props.c01 import value_menu

            keys = [k for k in gen.read_keys(prog) if k not in ("path", "b", "t_values")][:2]
            full = {k: gen.KEY_VALUES.get(k, 0.0625) for k in keys}
            for k in keys:
                for vname, v in value_menu().items():
                    menu_ctxs.append(({**full, k: v}, [k, vname]))
        if len(prog) <= 2:
            # the same content with its keys inserted in the opposite order: equal content => equal digests
            menu_ctxs += [(dict(reversed(list(c.items()))), m) for c, m in list(menu_ctxs) if len(c) >= 2]
        for ctx, menu in menu_ctxs:
            bad, info = judge_run(prog, ctx, detail, tz, scratch, digests)
            if bad and menu:
                bad = (bad[0] + "|unusual-value", f"context key {menu[0]} = {menu[1]}: {bad[1]}")
                ctx = {kk: vv for kk, vv in ctx.items() if kk != menu[0]}
            info.pop("pipeline", None)
            out["n"] += 1
            out["sers"] += info.get("sers", 0)
            out["classes"][info["class"]] = out["classes"].get(info["class"], 0) + 1
            if info.get("sers", 0) >= 2:
                out["nontrivial"].add(core.sha([prog, ctx]))
            if bad:
                out["viol"].append((bad[0], f"{list(prog)} ctx={ctx} detail={detail} TZ={tz}: {bad[1]}",
                                    {"prog": list(prog), "ctx": ctx, "detail": detail, "tz": tz, "menu": menu}))
            if out["sample"] is None and info.get("sers", 0) >= 3:
                out["sample"] = {"prog": list(prog), "ctx": ctx, "detail": detail, "tz": tz, "sers": info["sers"]}
        from mc.props.c01 import _housekeeping

        _housekeeping()
    set_tz("UTC")
    out["nontrivial"] = list(out["nontrivial"])
    out["digests"] = digests
    return out


def plan(tier: str):
    if tier == "quick":
        progs = gen.programs(ALPHA_FULL, [1, 2]) + gen.programs(ALPHA_SMALL[:9] + ["two", "srcdef", "ctxw"], [3])
        details, tzs = ["hash", "all", "repr", "hash,context", "context", "repr,context", "hash,repr"], ["UTC", "Asia/Tokyo", "Asia/Kathmandu", "XST8XDT,J1/0,J365/23", "Etc/GMT+8"]
    else:
        progs = gen.programs(ALPHA_FULL, [1, 2, 3])
        details, tzs = ["hash", "repr", "context", "all", "hash,repr", "hash,context", "repr,context"], TZS
    progs = list(progs) + list(SAME_FAMILY_PROGS) + list(gen.MENU_PROGS) + list(gen.LONG_PROGS)
    # programs that cannot even be constructed carry no SER: keep a few, drop the bulk
    progs = [p for p in sorted(set(progs)) if sum(gen.SYMBOLS[s]["kind"] == "invalid" for s in p) == 0 or len(p) == 1]
    jobs = []
    for i, p in enumerate(progs):
        if len(p) == 1:
            for j, d in enumerate(details):
                for tz in (tzs if tier != "quick" or j < 2 else [tzs[(i + j) % len(tzs)]]):
                    jobs.append((p, d, tz))
        else:
            jobs.append((p, details[i % len(details)], tzs[(i // len(details)) % len(tzs)]))
    from mc.props.c06 import HISTORY_PROGS

    for i, p in enumerate(gen.SLOW_PROGS):
        jobs.append((p, details[i % 2], tzs[i % len(tzs)]))
    for i, p in enumerate(HISTORY_PROGS + (list(SAME_FAMILY_PROGS) if tier == "thorough" else list(SAME_FAMILY_PROGS[:4]))):
        jobs.append((p, "history:" + details[i % len(details)], tzs[i % len(tzs)]))
    return jobs


def check(tier: str, seed: int) -> Result:
    jobs = core.seeded_order(plan(tier), seed)
    viols: List[Violation] = []
    n = sers = 0
    classes: Dict[str, int] = {}
    nontrivial = set()
    merged: Dict[str, Dict[str, str]] = {"data": {}, "ctx": {}}
    samples = []
    for o in core.pmap_chunks(_worker, jobs, chunk=max(8, len(jobs) // (core.NPROC * 8)), maxtasks=4):
        n += o["n"]
        sers += o["sers"]
        nontrivial.update(o["nontrivial"])
        for k, v in o["classes"].items():
            classes[k] = classes.get(k, 0) + v
        for sig, msg, case in o["viol"]:
            viols.append(Violation(sig, msg, case))
        # equal content => equal digest across processes
        for fam in ("data", "ctx"):
            for k, dg in o["digests"][fam].items():
                old = merged[fam].setdefault(k, dg)
                if old != dg:
                    viols.append(Violation("digest-differs-across-processes", f"{fam} content {k[:120]} hashed to {dg} in one worker process and {old} in another",
                                           {"kind": "digest", "family": fam, "content": k}))
        if o["sample"] and len(samples) < 4:
            samples.append(o["sample"])
    harness.quiet()
    n_ip, v_ip = inplace_digest_cases(harness.enter_scratch())
    n += n_ip
    for sig, msg, case in v_ip:
        viols.append(Violation(sig, msg, case))
    cov = {
        "states": len(merged["data"]) + len(merged["ctx"]), "transitions": sers, "traces_validated_against_impl": n,
        "evaluations": n, "distinct_nontrivial": len(nontrivial),
        "rule": "all programs of length 1-2 over a 20-symbol alphabet and length 3 over a 12-symbol one (thorough: 1-3 full) x parameter "
                "placements {none, all keys, each key alone, unrelated key} x detail levels x host time zones; each SER compared with the "
                "reference resolution table / diffs / states; transitions = SERs checked; states = distinct (content, digest) pairs; "
                "non-trivial = distinct (program, context) with >= 2 SERs",
        "outcome_classes": classes, "time_zones": sorted({j[2] for j in jobs}), "samples": samples, "exhaustive": True,
    }
    return Result("model_checking", cov, viols, [
        "the independent account is mc/ref/interp.py (bound to the implementation by C01) plus the processors' own log",
        "wall-clock bracket [time.time() before, after] +- 2 ms; smallest non-zero TZ offset used is 5h45",
        "output_type_ok is not judged on the SER of a failing node",
    ])


def replay(case) -> List[Violation]:
    harness.quiet()
    scratch = harness.enter_scratch()
    if case.get("kind") == "inplace":
        return [Violation(s_, m, c) for s_, m, c in inplace_digest_cases(scratch)[1] if c["size"] == case["size"]]
    set_tz(case.get("tz", "UTC"))
    ctx = dict(case["ctx"])
    if case.get("menu"):
        from mc.props.c01 import value_menu

        ctx[case["menu"][0]] = value_menu()[case["menu"][1]]
    try:
        dg: Dict[str, Dict[str, str]] = {"data": {}, "ctx": {}}
        bad, info = judge_run(tuple(case["prog"]), ctx, case["detail"], case.get("tz", "UTC"), scratch, dg)
        if not bad and len(ctx) >= 2:  # digest violations need the same content in the other insertion order as well
            bad, info = judge_run(tuple(case["prog"]), dict(reversed(list(ctx.items()))), case["detail"], case.get("tz", "UTC"), scratch, dg)
    finally:
        set_tz("UTC")
    return [Violation(bad[0] + ("|unusual-value" if case.get("menu") else ""), bad[1], case)] if bad else []


# ---------------------------------------------------------------------------------------------
# environment grid (mc/envgrid.py): what the SERs say is true in every process (the grid's environments set TZ themselves, including
# zones in which daylight-saving time is in force)

def env_cases(tier: str):
    from mc import envgrid

    jobs = [j for j in plan("quick") if not j[1].startswith("history:")]
    sel = envgrid.pick([j for j in jobs if len(j[0]) <= 2], 25 if tier == "quick" else 150) + envgrid.pick([j for j in jobs if len(j[0]) > 2], 25 if tier == "quick" else 150)
    from mc.props.c06 import ENV_MANY_KEYS

    sel += [(p, d, None) for p in ENV_MANY_KEYS for d in ("hash", "all")]
    return [{"prog": list(p), "detail": d, "ctx": contexts_c07(p)[-1]} for p, d, _ in sel]


def env_observe(case):
    from mc import envgrid

    scratch = envgrid.scratch()
    dg: Dict[str, Dict[str, str]] = {"data": {}, "ctx": {}}
    bad, info = judge_run(tuple(case["prog"]), case["ctx"], case["detail"], os.environ.get("TZ", "<unset>"), scratch, dg)
    return envgrid.norm({"judged": bad[0] if bad else None, "class": info.get("class"), "sers": info.get("sers"),
                         "digests": {k: sorted(v.items()) for k, v in dg.items()}}, scratch)
