"""Produce real traces from the runtime (single runs and run-space launches)."""
from __future__ import annotations

import copy
import os
from typing import Any, Dict, List, Optional, Sequence, Tuple

from mc import cli, gen, harness


class TraceUnreadable(Exception):
    """The run was performed, but what it left on disk cannot be read back as JSON lines."""


def traced_single(prog: Sequence[str], dkind: str, ctx: Dict[str, Any], detail: str = "hash", mode: str = "file",
                  scratch: Optional[str] = None, pipeline=None):
    """Run one traced pipeline; returns (records in emission order, files, RealOutcome, pipeline)."""
    from semantiva.pipeline import Pipeline
    from semantiva.trace.drivers.jsonl import JsonlTraceDriver

    scratch = scratch or harness.enter_scratch()
    harness.clear_dir(scratch)
    tpath = os.path.join(scratch, "t.ser.jsonl") if mode == "file" else os.path.join(scratch, "tdir")
    driver = JsonlTraceDriver(tpath, detail=detail)
    if pipeline is None:
        cfg = harness.load_config(gen.yaml_config(prog))
        pipeline = Pipeline(cfg.nodes, trace=driver)
    else:
        pipeline.trace = driver
    real = harness.run_pipeline(pipeline, gen.make_data(dkind), ctx, None)
    try:
        records, files = cli.collect_trace(tpath)
    except Exception as exc:  # noqa: BLE001 - a corrupt trace is an observation, not a loader refusal
        raise TraceUnreadable(f"{type(exc).__name__}: {str(exc)[:200]}") from exc
    return records, files, real, pipeline, driver


def launch_config(prog: Sequence[str], run_space: dict, trace_path: str, detail: str = "hash") -> dict:
    cfg = gen.yaml_config(prog)
    cfg["run_space"] = copy.deepcopy(run_space)
    cfg["trace"] = {"driver": "jsonl", "output_path": trace_path, "options": {"detail": detail}}
    return cfg


def traced_launch(prog: Sequence[str], run_space: dict, mode: str = "dir", detail: str = "hash", extra_args: Sequence[str] = (),
                  scratch: Optional[str] = None, contexts: Optional[Dict[str, Any]] = None):
    """`semantiva run` in-process on a config with a run_space block; returns (records, files, CliResult)."""
    scratch = scratch or harness.enter_scratch()
    harness.clear_dir(scratch)
    tpath = os.path.join(scratch, "trace.jsonl") if mode == "file" else os.path.join(scratch, "tdir")
    cfg = launch_config(prog, run_space, tpath, detail)
    ypath = cli.write_yaml(os.path.join(scratch, "pipeline.yaml"), cfg)
    argv = ["run", ypath, "-q", *extra_args]
    for k, v in (contexts or {}).items():
        argv += ["--context", f"{k}={v}"]
    res = cli.run_cli(argv)
    records, files = cli.collect_trace(tpath)
    return records, files, res


# A small menu of (program, data kind, context) single-run cases: successful and failing at each index / kind
SINGLE_CASES: List[Tuple[Tuple[str, ...], str, Dict[str, Any]]] = [
    (("src", "mul3", "probe_r", "sink"), "none", {}),
    (("src", "mul", "sink"), "none", {}),                       # unresolvable parameter at node 1
    (("src", "mul3", "fail"), "none", {}),                      # processor error at node 2
    (("paysrc", "ctxw", "tmpl_path", "sink_ctx"), "none", {"b": 2.5}),   # merge collision at node 0
    (("src", "sum"), "none", {}),                               # type gate at node 1
    (("src", "badw", "sink"), "none", {}),                      # undeclared write at node 1
    (("sweep_src", "slice_muldef", "sum", "gainprobe"), "none", {"factor": 5.0}),
    (("src", "probe_factor", "ren_factor_a", "del_a", "muldef"), "none", {}),
    (("src", "bogus"), "none", {}),                             # construction error
    (("src",), "none", {}),
]

LAUNCH_CASES: List[Tuple[Tuple[str, ...], dict]] = [
    (("src_ctx", "failif", "probe_r"),
     {"blocks": [{"mode": "by_position", "context": {"value": [1.0, 2.0], "a": [0.0, 0.0]}}]}),
    (("src_ctx", "failif", "probe_r"),
     {"blocks": [{"mode": "by_position", "context": {"value": [1.0, 2.0, 3.0], "a": [0.0, 666.0, 0.0]}}]}),
    (("src_ctx", "mul"),
     {"combine": "combinatorial", "blocks": [{"mode": "by_position", "context": {"value": [1.0, 2.0]}},
                                             {"mode": "by_position", "context": {"factor": [3.0]}}]}),
    (("src_ctx", "failif"),
     {"blocks": [{"mode": "by_position", "context": {"value": [1.0, 2.0], "a": [666.0, 0.0]}}]}),
]
