#!/usr/bin/env python3
"""Regenerate seeded/README.md from the meta.json files."""
import json
import os

HERE = os.path.join(os.path.dirname(os.path.abspath(__file__)), "..", "seeded")
HEAD = """# Independently produced breaking changes

Each directory holds patch.diff, demo.py (fails with the patch, passes without), the author's notes.md and meta.json.
All were produced by sub-agents that never saw /verif; each was confirmed with tools/seed_confirm.sh and run against the checks with tools/with_mutant.sh
(use BASE=<base_commit> tools/with_mutant.sh ... when /repo has moved on since the seed was made and the patch no longer applies to the working tree).

| seed | property | change | caught by | machinery strengthened |
|---|---|---|---|---|
"""


def main():
    rows = []
    for d in sorted(os.listdir(HERE)):
        mp = os.path.join(HERE, d, "meta.json")
        if not os.path.exists(mp):
            continue
        m = json.load(open(mp))
        caught = "; ".join(f"**{k}**: {v}" for k, v in m.get("caught_by", {}).items())
        esc = lambda s: str(s).replace("|", "\\|").replace("\n", " ")  # noqa: E731
        rows.append(f"| {d} | {m['property']} | {esc(m['summary'])} | {esc(caught)} | {esc(m.get('strengthened') or '-')} |")
    with open(os.path.join(HERE, "README.md"), "w") as f:
        f.write(HEAD + "\n".join(rows) + "\n")
    print(len(rows), "seeds")


if __name__ == "__main__":
    main()
