"""C01 — pipeline execution matches the documented dual-channel node semantics.

Bounded-exhaustive enumeration of node programs x initial payloads x initial contexts; every
reference-model trace (mc.ref.interp) is replayed against the real Pipeline.
"""
from __future__ import annotations

import os
from typing import Any, Dict, List, Optional, Sequence, Tuple

from mc import core, gen, harness
from mc.core import Result, Violation
from mc.ref import interp

_PIPES: Dict[Tuple[str, ...], Any] = {}


def build_pipeline(prog: Sequence[str]):
    from semantiva.pipeline import Pipeline

    cfg = harness.load_config(gen.yaml_config(prog))
    p = Pipeline(cfg.nodes)
    p._verif_nodes = cfg.nodes  # the caller's node definitions, for the second-use check
    return p


def build_via_file(prog: Sequence[str], scratch: str):
    """Entry point: load_pipeline_from_yaml(<file>) instead of parse_pipeline_config(<mapping>)."""
    import os

    import yaml
    from semantiva.configurations.load_pipeline_from_yaml import load_pipeline_from_yaml
    from semantiva.pipeline import Pipeline

    d = scratch.rstrip(os.sep) + "_cfg"  # next to the scratch directory (which is emptied before every run), under the run's root
    os.makedirs(d, exist_ok=True)
    yp = os.path.join(d, "p.yaml")
    with open(yp, "w") as f:
        yaml.safe_dump(gen.yaml_config(prog), f, sort_keys=False)
    cfg = load_pipeline_from_yaml(yp)
    return Pipeline(cfg.nodes)


def build_with_classes(prog: Sequence[str]):
    """Entry point: the Python API with processor CLASSES (resolved from the names) instead of strings."""
    import copy

    from semantiva.pipeline import Pipeline
    from semantiva.registry import resolve_symbol

    harness.load_config(gen.yaml_config(("src",)))  # extension loaded
    nodes = []
    for s_ in prog:
        nd = copy.deepcopy(gen.SYMBOLS[s_]["node"])
        try:
            nd["processor"] = resolve_symbol(nd["processor"])
        except Exception:
            pass  # an unknown name stays a name: the framework reports it
        nodes.append(nd)
    return Pipeline(nodes)


def build_aliased(prog: Sequence[str]):
    """The same program given through the Python API with ONE node-definition object per distinct symbol, listed as often as the
    symbol occurs (what a YAML alias or a reused dict produces): each occurrence is still its own node."""
    from semantiva.pipeline import Pipeline

    uniq = list(dict.fromkeys(prog))
    cfg = harness.load_config(gen.yaml_config(tuple(uniq)))
    by = dict(zip(uniq, cfg.nodes))
    return Pipeline([by[s] for s in prog])


def compare(prog, dkind, ctx, ref: interp.Outcome, real: harness.RealOutcome) -> Optional[Tuple[str, str]]:
    """Returns (signature, message) on disagreement."""
    if ref.status == "ok":
        if real.status != "ok":
            return ("unexpected-failure", f"reference succeeds, run raised {real.error} at node {real.index}: {real.exc!r}")
        if not core.same(real.data, ref.data):
            return ("wrong-data", f"data {real.data} != reference {ref.data}")
        if not core.same(real.ctx, ref.ctx):
            return ("wrong-context", f"context {real.ctx} != reference {ref.ctx}")
    else:
        if real.status == "ok":
            return ("missing-failure", f"reference prescribes {ref.error} at node {ref.index} ({ref.status}); run returned {real.data} {real.ctx}")
        if ref.status != real.status:
            return ("wrong-failure-phase", f"reference {ref.status}@{ref.index} {ref.error}; run {real.status}@{real.index} {real.error}")
        if ref.error != real.error:
            return ("wrong-exception-class", f"reference {ref.error} at node {ref.index}; run raised {real.error}: {real.exc!r}")
        if ref.status == "fail" and ref.index != real.index:
            return ("wrong-failing-node", f"reference fails at node {ref.index} ({ref.error}); run failed at node {real.index}")
        if ref.error in ("ValueError", "RuntimeError") and ref.reason == "deliberate":
            from verif_lib.components import EMPTY_ERROR, THE_ERROR

            if real.exc is not (THE_ERROR if ref.error == "ValueError" else EMPTY_ERROR):
                return ("exception-not-original", f"processor error reached the caller as a different object: {real.exc!r}")
        if not core.same(real.ctx, ref.ctx):
            return ("wrong-context-at-failure", f"caller context after failure {real.ctx} != reference {ref.ctx}")
    if not core.same(real.log, ref.log):
        return ("wrong-execution-log", f"processors ran as {real.log}, reference predicts {ref.log}")
    if sorted(real.files) != sorted(ref.files):
        return ("wrong-sink-output", f"sink files {real.files} != reference {ref.files}")
    return None


def run_case(prog, dkind, ctx, pipe=None, scratch=None):
    ref = interp.run(prog, gen.ref_data(dkind), ctx)
    if pipe is None:
        pipe = build_pipeline(prog)
    real = harness.run_pipeline(pipe, gen.make_data(dkind), ctx, scratch)
    return ref, real, compare(prog, dkind, ctx, ref, real)


def value_menu() -> Dict[str, Any]:
    import numpy as np

    return {"int": 5, "true": True, "false": False, "negzero": -0.0, "inf": float("inf"), "nan": float("nan"), "np.float64": np.float64(5.0),
            "np.int64": np.int64(3), "numeric-string": "5.0", "empty-string": "", "list": [1.0], "bigint": 10 ** 20, "tuple": (1.0, 2.0),
            "none": None}  # a key that is PRESENT with the value None is a context value like any other (node > context > default)


def data_kinds_for(prog) -> List[str]:
    """All three initial data kinds for short programs; for longer ones the kind the first data node accepts plus 'none'."""
    if len(prog) <= 2:
        return list(gen.DATA_KINDS)
    want = None
    for s in prog:
        sym = gen.SYMBOLS[s]
        k = sym.get("in", interp.INPUT_KIND.get(sym["kind"]))
        if k:
            want = {"N": "none", "F": "float", "C": "coll"}[k]
            break
    return sorted({"none", want or "float"})


def _worker(chunk):
    harness.quiet()
    scratch = harness.enter_scratch()
    st = {"programs": 0, "exec": 0, "transitions": 0, "states": set(), "outcomes": {}, "viol": [], "prefix_runs": 0,
          "nontrivial": set(), "sample": None}
    for prog in chunk:
        st["programs"] += 1
        try:
            pipe = build_pipeline(prog)
        except Exception as exc:  # the loader / Pipeline(...) refuses: legitimate only for a configuration the reference calls invalid
            st["outcomes"]["loader-rejects:" + type(exc).__name__] = st["outcomes"].get("loader-rejects:" + type(exc).__name__, 0) + 1
            r0 = interp.run(prog, gen.ref_data("none"), {})
            if not (r0.status == "construct" and r0.error == type(exc).__name__):
                st["viol"].append(("loader-refuses-valid-configuration", f"{list(prog)}: {type(exc).__name__}: {str(exc)[:200]} (reference: {r0.status} {r0.error})",
                                   {"prog": list(prog), "data": "none", "ctx": {}}))
            continue
        did_prefix = False
        for dkind in data_kinds_for(prog):
            for ctx in gen.contexts_for(prog):
                ref, real, bad = run_case(prog, dkind, ctx, pipe, scratch)
                st["exec"] += 1
                st["transitions"] += len(ref.states) + (1 if ref.status == "fail" else 0)
                for s in ref.states:
                    st["states"].add(core.sha(s))
                ok = f"{ref.status}:{ref.error}"
                st["outcomes"][ok] = st["outcomes"].get(ok, 0) + 1
                if len(ref.states) >= 2 or (ref.status == "fail" and ref.index):
                    st["nontrivial"].add(core.sha([prog, dkind, ctx]))
                if bad:
                    st["viol"].append((bad[0], bad[1], {"prog": list(prog), "data": dkind, "ctx": ctx}))
                if st["sample"] is None and ref.status == "ok" and len(prog) >= 2:
                    st["sample"] = {"prog": list(prog), "data": dkind, "ctx": ctx, "result": [ref.data, ref.ctx]}
                # prefix-differential: state reached by prefix runs on fresh Pipelines == reference intermediate states
                if not did_prefix and ref.status == "ok" and len(prog) >= 2:
                    did_prefix = True
                    for i in range(1, len(prog)):
                        pp = build_pipeline(prog[:i])
                        r = harness.run_pipeline(pp, gen.make_data(dkind), ctx, scratch)
                        st["prefix_runs"] += 1
                        exp = ref.states[i - 1]
                        if r.status != "ok" or not core.same(r.data, exp[0]) or not core.same(r.ctx, exp[1]):
                            st["viol"].append(("prefix-differential-mismatch",
                                               f"prefix {list(prog[:i])} gives {r.status} {r.data} {r.ctx}, reference state after node {i-1} is {exp}",
                                               {"prog": list(prog[:i]), "data": dkind, "ctx": ctx}))
        # unusual-but-legal VALUES at every context key the program reads (short programs): the documented semantics do not depend
        # on what kind of object a parameter value is
        if len(prog) <= 2:
            keys = [k for k in gen.read_keys(prog) if k != "path"][:3]  # (a sink's path is handed to open(): an int there is a file descriptor)
            full = {k: gen.KEY_VALUES.get(k, 0.0625) for k in keys}
            dkv = data_kinds_for(prog)[-1] if len(prog) > 2 else {"N": "none", "F": "float", "C": "coll"}[
                gen.SYMBOLS[prog[0]].get("in", interp.INPUT_KIND.get(gen.SYMBOLS[prog[0]]["kind"], "F"))]
            for k in keys:
                for vname, v in value_menu().items():
                    ctx = {**full, k: v}
                    ref, real, bad = run_case(prog, dkv, ctx, pipe, scratch)
                    st["exec"] += 1
                    if bad:
                        st["viol"].append((bad[0] + "|unusual-value", f"context key {k} = {vname}: " + bad[1],
                                           {"prog": list(prog), "data": dkv, "ctx": {kk: vv for kk, vv in full.items() if kk != k}, "menu": [k, vname]}))
        # other entry points for the same configuration: a YAML file on disk; processor classes instead of names
        if len(prog) <= 2 or st["programs"] % 7 == 0:
            for how, builder in (("yaml-file", lambda: build_via_file(prog, scratch)), ("processor-classes", lambda: build_with_classes(prog))):
                dk3 = data_kinds_for(prog)[-1]
                cx3 = gen.contexts_for(prog)[-2 if len(gen.contexts_for(prog)) > 1 else 0]
                refx = interp.run(prog, gen.ref_data(dk3), cx3)
                try:
                    px = builder()
                except Exception as exc:
                    if refx.status == "construct" and type(exc).__name__ == refx.error:
                        continue  # the configuration is invalid: refused when the names are resolved, i.e. earlier than Pipeline(...)
                    st["viol"].append((f"entry-point-refuses|{how}", f"{list(prog)} via {how}: {type(exc).__name__}: {exc}",
                                       {"prog": list(prog), "data": dk3, "ctx": cx3, "entry": how}))
                    continue
                ref, real, bad = run_case(prog, dk3, cx3, px, scratch)
                st["exec"] += 1
                if bad and not (how == "processor-classes" and ref.status == "construct"):
                    st["viol"].append((bad[0] + f"|entry-point-{how}", f"built through {how}: " + bad[1],
                                       {"prog": list(prog), "data": dk3, "ctx": cx3, "entry": how}))
        # a second Pipeline built from the SAME in-memory node definitions behaves like the first
        try:
            from semantiva.pipeline import Pipeline as _P

            p2 = _P(pipe._verif_nodes)
            dk2 = data_kinds_for(prog)[-1]
            cx2 = gen.contexts_for(prog)[-2 if len(gen.contexts_for(prog)) > 1 else 0]
            ref, real, bad = run_case(prog, dk2, cx2, p2, scratch)
            st["exec"] += 1
            if bad:
                st["viol"].append((bad[0] + "|second-pipeline-from-same-definitions", "second Pipeline built from the same node definitions: " + bad[1],
                                   {"prog": list(prog), "data": dk2, "ctx": cx2, "second": True}))
        except Exception as exc:
            st["viol"].append(("second-pipeline-from-same-definitions-not-constructible", f"{list(prog)}: {type(exc).__name__}: {exc}",
                               {"prog": list(prog), "data": "none", "ctx": {}, "second": True}))
        if len(set(prog)) < len(prog):
            # a node definition object listed twice; run twice on the same Pipeline (second run: history)
            try:
                ap = build_aliased(prog)
            except Exception:
                ap = None
            if ap is not None:
                dkind = data_kinds_for(prog)[-1] if len(prog) > 2 else {"N": "none", "F": "float", "C": "coll"}[
                    gen.SYMBOLS[prog[0]].get("in", interp.INPUT_KIND.get(gen.SYMBOLS[prog[0]]["kind"], "F"))]
                cs = gen.contexts_for(prog)
                for ctx in [cs[0], cs[-2] if len(cs) > 1 else cs[0], cs[0]]:
                    ref, real, bad = run_case(prog, dkind, ctx, ap, scratch)
                    st["exec"] += 1
                    if bad:
                        st["viol"].append((bad[0] + "|shared-node-definition", "node definitions shared between occurrences: " + bad[1],
                                           {"prog": list(prog), "data": dkind, "ctx": ctx, "aliased": True}))
        _housekeeping()
    st["states"] = list(st["states"])
    st["nontrivial"] = list(st["nontrivial"])
    return st


_REG_BASE: Dict[str, int] = {}


def _housekeeping():
    """Truncate the process-global component registry back to its post-import size (harness
    housekeeping between programs; no property except C18 observes it, and C18 runs without it)."""
    try:
        from semantiva.core import semantiva_component as sc

        reg = getattr(sc, "_COMPONENT_REGISTRY", None)
        if isinstance(reg, dict):
            for k, v in reg.items():
                if isinstance(v, list):
                    base = _REG_BASE.setdefault(k, len(v))
                    if len(v) > base + 5000:
                        del v[base:]  # (strong or weak references alike)
    except Exception:
        pass


def program_set(tier: str) -> List[Tuple[str, ...]]:
    if tier == "quick":
        progs = gen.programs(gen.ALL, [1, 2]) + gen.programs(gen.PRIME[:12], [3])
        for sp in gen.SPINES[:2]:
            progs += gen.edits(sp, gen.PRIME, 1)
    else:
        progs = gen.programs(gen.ALL, [1, 2, 3]) + gen.programs(gen.PRIME[:12], [4])
        for sp in gen.SPINES:
            progs += gen.edits(sp, gen.PRIME, 2)
    return sorted(set(progs) | set(gen.MENU_PROGS) | set(gen.LONG_PROGS))


def check(tier: str, seed: int) -> Result:
    progs = core.seeded_order(program_set(tier), seed)
    tot = {"programs": 0, "exec": 0, "transitions": 0, "prefix_runs": 0}
    states, nontrivial = set(), set()
    outcomes: Dict[str, int] = {}
    viols: List[Violation] = []
    sample = []
    for st in core.pmap_chunks(_worker, progs, chunk=max(8, len(progs) // (core.NPROC * 8)), maxtasks=4):
        for k in tot:
            tot[k] += st[k]
        states.update(st["states"])
        nontrivial.update(st["nontrivial"])
        for k, v in st["outcomes"].items():
            outcomes[k] = outcomes.get(k, 0) + v
        for sig, msg, case in st["viol"]:
            viols.append(Violation(sig, f"{case['prog']} data={case['data']} ctx={case['ctx']}: {msg}", case))
        if st["sample"] and len(sample) < 5:
            sample.append(st["sample"])
    cov = {
        "states": len(states), "transitions": tot["transitions"], "traces_validated_against_impl": tot["exec"] + tot["prefix_runs"],
        "evaluations": tot["exec"], "distinct_nontrivial": len(nontrivial),
        "programs": tot["programs"], "prefix_differential_runs": tot["prefix_runs"],
        "reference_outcome_classes": outcomes,
        "rule": "all programs of length 1-2 over the full alphabet (%d symbols), length 3 (thorough: 1-3 full, 4 reduced) over a reduced "
                "alphabet, plus all programs within 1 (thorough 2) edits of length-8 spines; x 3 initial data x every subset of the "
                "context keys the program can read (+1 unrelated key). non-trivial = distinct cases in which at least two nodes ran "
                "or the run failed after the first node" % len(gen.ALL),
        "samples": sample, "exhaustive": True,
    }
    return Result("model_checking", cov, viols, [
        "reference interpreter mc/ref/interp.py written from the documentation; float results compared exactly",
        "context values outside the alphabet (None, NaN, collections of contexts) are not explored",
        "the component registry is truncated between programs (housekeeping, unobservable by this property)",
    ])


def replay(case) -> List[Violation]:
    harness.quiet()
    scratch = harness.enter_scratch()
    if case.get("entry"):
        prog = tuple(case["prog"])
        px = build_via_file(prog, scratch) if case["entry"] == "yaml-file" else build_with_classes(prog)
        ref, real, bad = run_case(prog, case["data"], case["ctx"], px, scratch)
        return [Violation(bad[0] + f"|entry-point-{case['entry']}", bad[1], case)] if bad else []
    if case.get("menu"):
        k, vname = case["menu"]
        ctx = {**case["ctx"], k: value_menu()[vname]}
        ref, real, bad = run_case(tuple(case["prog"]), case["data"], ctx, None, scratch)
        return [Violation(bad[0] + "|unusual-value", bad[1], case)] if bad else []
    if case.get("second"):
        from semantiva.pipeline import Pipeline as _P

        prog = tuple(case["prog"])
        p1 = build_pipeline(prog)
        run_case(prog, case["data"], case["ctx"], p1, scratch)
        ref, real, bad = run_case(prog, case["data"], case["ctx"], _P(p1._verif_nodes), scratch)
        return [Violation(bad[0] + "|second-pipeline-from-same-definitions", bad[1], case)] if bad else []
    if case.get("aliased"):
        prog = tuple(case["prog"])
        ap = build_aliased(prog)
        out = []
        for ctx in [gen.contexts_for(prog)[0], case["ctx"], case["ctx"]]:
            ref, real, bad = run_case(prog, case["data"], ctx, ap, scratch)
            if bad:
                out.append(Violation(bad[0] + "|shared-node-definition", bad[1], case))
        return out[:1]
    ref, real, bad = run_case(tuple(case["prog"]), case["data"], case["ctx"], None, scratch)
    return [Violation(bad[0], bad[1], case)] if bad else []


# ---------------------------------------------------------------------------------------------
# environment grid (mc/envgrid.py): what a run returns is a function of (configuration, payload) in every environment

def env_cases(tier: str):
    from mc import envgrid

    from mc.props.c06 import ENV_MANY_KEYS

    progs = envgrid.pick(program_set("quick"), 60 if tier == "quick" else 400) + [p for p in gen.LONG_PROGS][:2] + list(ENV_MANY_KEYS)
    out = []
    for prog in progs:
        ctxs = gen.contexts_for(prog)
        out.append({"prog": list(prog), "data": data_kinds_for(prog)[-1], "ctx": ctxs[-1]})
        if len(ctxs) > 1:
            out.append({"prog": list(prog), "data": data_kinds_for(prog)[0], "ctx": ctxs[0]})
    return out


def env_observe(case):
    from mc import envgrid

    scratch = envgrid.scratch()
    prog = tuple(case["prog"])
    try:
        ref, real, bad = run_case(prog, case["data"], case["ctx"], None, scratch)
    except Exception as exc:
        return {"loader": type(exc).__name__}
    return envgrid.norm({"status": real.status, "error": real.error, "index": real.index, "data": real.data, "ctx": harness.canon_ctx(real.ctx),
                         "log": real.log, "files": real.files, "judged": bad[0] if bad else None}, scratch)
