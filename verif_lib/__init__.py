"""Harness component library, loadable as a semantiva extension: extensions: ["verif_lib"]."""
from __future__ import annotations


def register() -> None:
    from semantiva.registry.processor_registry import ProcessorRegistry

    ProcessorRegistry.register_modules(["semantiva.examples.test_utils", "verif_lib.components"])
