"""Reference dual-channel interpreter (written from the documentation, deliberately boring).

State = (data, context dict).  data is ("N",) | ("F", x) | ("C", [x...]).
run(prog, data, ctx) -> Outcome with
  status      "ok" | "fail" | "construct"
  data, ctx   final (or at-failure) state
  index       failing node index (status == "fail")
  error       exception class name
  log         predicted harness execution log [(processor name, params)]
  files       predicted sink writes [(path, line)]
  table       per node: resolution table {param: (value, channel)}  channel in node|context|default
  diffs       per node: {"created": [...], "updated": [...], "removed": [...]}
"""
from __future__ import annotations

import copy
from typing import Any, Dict, List, Optional, Sequence, Tuple

from mc.gen import NODEF, SYMBOLS


class Fail(Exception):
    def __init__(self, error: str, reason: str = "processor"):
        self.error = error
        self.reason = reason  # unresolvable | type-gate | undeclared-write | collision | processor


class Outcome:
    def __init__(self):
        self.status = "ok"
        self.data: Any = None
        self.ctx: Dict[str, Any] = {}
        self.index: Optional[int] = None
        self.error: Optional[str] = None
        self.log: List[Tuple[str, dict]] = []
        self.files: List[Tuple[str, str]] = []
        self.table: List[Dict[str, Tuple[Any, str]]] = []
        self.diffs: List[Dict[str, List[str]]] = []
        self.states: List[Tuple[Any, Dict[str, Any]]] = []
        self.reason: Optional[str] = None

    def key(self):
        return (self.status, self.index, self.error, repr(self.data), repr(sorted(self.ctx.items(), key=lambda kv: kv[0])))


INPUT_KIND = {
    "source": "N", "paysource": "N", "sweep_src": "N",
    "op": "F", "probe": "F", "sink": "F", "sweep_op": "F", "sweep_probe": "F",
    "slicer_op": "C", "slicer_probe": "C",
}


def resolve(sym: dict, ctx: Dict[str, Any]) -> Dict[str, Tuple[Any, str]]:
    """config > context > default, in declared parameter order; first unresolvable one fails."""
    out: Dict[str, Tuple[Any, str]] = {}
    for name, default in sym["params"]:
        if name in sym["cfg"]:
            out[name] = (sym["cfg"][name], "node")
        elif name in ctx:
            out[name] = (ctx[name], "context")
        elif default != NODEF:
            out[name] = (default, "default")
        else:
            raise Fail("KeyError", "unresolvable")
    return out


def _as_float(r: Any) -> float:
    """FloatDataType(value) validates isinstance(value, float): an operation whose arithmetic yields anything else (an int, a numpy
    array from broadcasting, a complex) fails there, as a processor error."""
    if not isinstance(r, float):
        raise Fail("TypeError")
    return r


def _is_marker(a: Any) -> bool:
    try:
        return bool(a == 666.0)
    except Exception:
        return False


def float_op(proc: str, x: float, p: Dict[str, Any], ctx: Dict[str, Any], log: list) -> float:
    """One transition function per processor."""
    if proc == "VMul":
        log.append(("VMul", {"factor": p["factor"]}))
        return x * p["factor"]
    if proc == "VMulDef":
        log.append(("VMulDef", {"factor": p["factor"]}))
        return x * p["factor"]
    if proc == "VAdd":
        log.append(("VAdd", {"addend": p["addend"]}))
        return x + p["addend"]
    if proc == "VTwo":
        log.append(("VTwo", {"factor": p["factor"], "addend": p["addend"]}))
        return x * p["factor"] + p["addend"]
    if proc == "VKwMix":
        log.append(("VKwMix", {"factor": p["factor"], "offset": p["offset"]}))
        return x * p["factor"] + p["offset"]
    if proc == "VFive":
        log.append(("VFive", {k: p[k] for k in ("factor", "addend", "offset", "gain", "bias")}))
        return x * p["factor"] + p["addend"] + p["offset"] + p["gain"] + p["bias"]
    if proc == "VKwMul":
        log.append(("VKwMul", {"factor": p["factor"]}))
        return x * p["factor"]
    if proc == "VKwTwo":
        log.append(("VKwTwo", {"factor": p["factor"], "addend": p["addend"]}))
        return x * p["factor"] + p["addend"]
    if proc == "VCtxWrite":
        log.append(("VCtxWrite", {}))
        ctx["a"] = x + 0.25
        return x + 1.0
    if proc == "VSleep":
        log.append(("VSleep", {"seconds": p["seconds"]}))
        return x
    if proc == "VItemSum":
        total = sum(float(v) for v in p["items"]) if p["items"] is not None else 0.0
        log.append(("VItemSum", {"total": total}))
        return x + total
    if proc == "VNestWrite":
        log.append(("VNestWrite", {"nest": p["nest"]}))
        ctx["nest"] = p["nest"] if p["nest"] is not None else {"alpha": 1, "limits": {"lo": 0, "hi": 9}}
        return x
    if proc == "VBadWrite":
        log.append(("VBadWrite", {}))
        raise Fail("KeyError", "undeclared-write")  # write to an undeclared key
    if proc == "VAbort":
        log.append(("VAbort", {}))
        raise Fail("VerifAbort")
    if proc == "VSysExit":
        log.append(("VSysExit", {}))
        raise Fail("SystemExit")
    if proc == "VInterrupt":
        log.append(("VInterrupt", {}))
        raise Fail("KeyboardInterrupt")
    if proc == "VFail":
        log.append(("VFail", {}))
        raise Fail("ValueError", "deliberate")
    if proc == "VFailEmpty":
        log.append(("VFailEmpty", {}))
        raise Fail("RuntimeError", "deliberate")
    if proc == "VFailIf":
        log.append(("VFailIf", {"a": p["a"]}))
        if _is_marker(p["a"]):
            raise Fail("ValueError", "deliberate")
        return x
    raise AssertionError(proc)


def probe_fn(proc: str, x: float, p: Dict[str, Any], log: list) -> Any:
    if proc == "VProbe":
        log.append(("VProbe", {}))
        return x
    if proc == "VGainProbe":
        log.append(("VGainProbe", {"gain": p["gain"]}))
        return x * p["gain"]
    if proc == "VEchoProbe":
        log.append(("VEchoProbe", {}))
        return ("F", x + 1.0)
    if proc == "VKwGainProbe":
        log.append(("VKwGainProbe", {"gain": p["gain"]}))
        return x * p["gain"]
    if proc == "VFactorProbe":
        log.append(("VFactorProbe", {"factor": p["factor"]}))
        return x * p["factor"]
    raise AssertionError(proc)


def step(sym: dict, data: Any, ctx: Dict[str, Any], out: Outcome) -> Any:
    """Apply one node; mutates ctx (the single context threaded through the run); returns new data."""
    kind = sym["kind"]
    log = out.log
    if kind in INPUT_KIND:
        if data[0] != sym.get("in", INPUT_KIND[kind]):
            raise Fail("TypeError", "type-gate")  # runtime input-type gate
    p_full = resolve(sym, ctx)
    out.table.append(p_full)
    p = {k: v for k, (v, _) in p_full.items()}
    if kind == "source":
        log.append((sym["node"]["processor"], {"value": p["value"]}))
        return ("F", float(p["value"]))  # float() of whatever was given; its own TypeError / ValueError is the processor's error
    if kind == "paysource":
        log.append(("VPaySrc", {}))
        if "b" in ctx:
            raise Fail("KeyError", "collision")  # payload-source merge refuses existing keys
        ctx["b"] = 5.0
        return ("F", 7.0)
    if kind == "op":
        if sym["proc"] == "VSum":
            log.append(("VSum", {}))
            return ("F", float(sum(data[1])))
        return ("F", _as_float(float_op(sym["proc"], data[1], p, ctx, log)))
    if kind == "probe":
        ctx[sym["ckey"]] = probe_fn(sym["proc"], data[1], p, log)
        return data
    if kind == "slicer_op":
        return ("C", [_as_float(float_op(sym["proc"], x, p, ctx, log)) for x in data[1]])
    if kind == "slicer_probe":
        ctx[sym["ckey"]] = [probe_fn(sym["proc"], x, p, log) for x in data[1]]
        return data
    if kind == "sink":
        proc = sym["proc"]
        if proc == "VTxtSink":
            log.append(("VTxtSink", {"path": p["path"]}))
            if not isinstance(p["path"], str):
                raise Fail("TypeError")  # open() refuses a non-string path
            out.files.append((p["path"], repr(data[1])))
        else:
            log.append((proc, {}))
        return data
    if kind == "sweep_src":
        (var, seq), = sym["vars"].items()
        items = []
        for t in seq:
            v = 2.0 * t
            log.append((sym["proc"], {"value": v}))
            items.append(v)
        ctx[f"{var}_values"] = list(seq)
        return ("C", items)
    if kind == "sweep_op":
        (var, seq), = sym["vars"].items()
        items = [float_op(sym["proc"], data[1], {**p, sym.get("swept", "factor"): t}, ctx, log) for t in seq]
        ctx[f"{var}_values"] = list(seq)
        return ("C", items)
    if kind == "sweep_probe":
        (var, seq), = sym["vars"].items()
        ctx[sym["ckey"]] = [probe_fn(sym["proc"], data[1], {"factor": t}, log) for t in seq]
        ctx[f"{var}_values"] = list(seq)
        return data
    if kind == "ctx":
        op = sym["op"]
        if op == "rename":
            v = p[sym["src"]]
            if v is not None:
                ctx[sym["dst"]] = v
                if sym["src"] not in ctx:  # the value came from the node configuration; there is nothing to suppress
                    raise Fail("KeyError", "missing-key-to-suppress")
                del ctx[sym["src"]]
        elif op == "delete":
            if p[sym["src"]] is not None:
                if sym["src"] not in ctx:
                    raise Fail("KeyError", "missing-key-to-suppress")
                del ctx[sym["src"]]
        elif op == "template":
            ctx[sym["dst"]] = sym["tmpl"].format(**{k: str(v) for k, v in p.items()})
        return data
    raise AssertionError(kind)


def _same(a: Any, b: Any) -> bool:
    from mc.core import same

    return same(a, b)


def run(prog: Sequence[str], data: Any, ctx: Dict[str, Any]) -> Outcome:
    out = Outcome()
    ctx = dict(ctx)
    # construction happens for all nodes before any node runs
    for i, s in enumerate(prog):
        sym = SYMBOLS[s]
        if sym["kind"] == "invalid":
            out.status, out.error, out.index = "construct", sym["error"], i
            out.reason = "construct"
            out.data, out.ctx = data, ctx
            return out
    for i, s in enumerate(prog):
        sym = SYMBOLS[s]
        before = dict(ctx)
        ntab = len(out.table)
        try:
            data = step(sym, data, ctx, out)
        except (Fail, TypeError, ValueError, OverflowError, ZeroDivisionError) as f:
            # a Python error inside the processor's own arithmetic (float * list, float(""), ...) is a processor error
            out.status, out.error, out.index = "fail", getattr(f, "error", type(f).__name__), i
            out.reason = getattr(f, "reason", "processor")
            out.data, out.ctx = data, ctx
            return out
        if len(out.table) == ntab:
            out.table.append({})
        out.diffs.append({
            "created": sorted(k for k in ctx if k not in before),
            "updated": sorted(k for k in ctx if k in before and not _same(ctx[k], before[k])),
            "rewritten": sorted(k for k in ctx if k in before),
            "removed": sorted(k for k in before if k not in ctx),
        })
        out.states.append((data, dict(ctx)))
    out.data, out.ctx = data, ctx
    return out
