"""C06 — every run leaves a well-formed, schema-valid trace, whatever node fails.

Fault enumeration: programs whose alphabet contains one symbol per failure kind (processor error,
unresolvable parameter, type gate, undeclared context write, construction errors, KeyboardInterrupt),
all programs to length 2-3(4) so that every node index is a failure point, x detail levels x
file / directory output.  Oracle: mc.ref.tracegrammar (+ schemas from the package's registry).
"""
from __future__ import annotations

import os
from typing import Any, Dict, List, Optional, Tuple

from mc import core, gen, harness, traces
from mc.core import Result, Violation
from mc.ref import interp, tracegrammar

ALPHA_FULL = ["src", "srcdef", "paysrc", "mul", "muldef", "ctxw", "fail", "badw", "interrupt", "abort", "sysexit", "sum", "probe_factor",
              "ren_r_factor", "del_factor", "slice_mul", "sweep_op", "sink_ctx", "bogus", "probe_nokey", "unknown", "two",
              "slice_mul3", "slice_muldef", "sweep_two", "sweep_probe", "kwtwo", "kwgainprobe", "nestw", "failempty", "muldefnone", "mulinf", "itemsum"]
# pipelines holding two DIFFERENT generated classes of the same family (same module + qualname, different parameter tables / bindings)
SAME_FAMILY_PROGS = [
    ("sweep_src", "slice_mul3", "slice_muldef"), ("sweep_src", "slice_muldef", "slice_mul3"), ("sweep_src", "slice_mul", "slice_muldef", "sum"),
    ("src", "sweep_op", "sum", "sweep_two"), ("src", "sweep_two", "sum", "sweep_op"), ("src", "sweep_two", "slice_mul3", "slice_muldef", "sum"),
    ("src", "sweep_probe", "sweep_two", "sum"), ("src", "probe_r", "probe_factor", "tmpl_a", "tmpl_path"), ("src", "probe_factor", "ren_factor_a", "probe_r", "ren_r_factor"),
    ("sweep_src", "slice_probe", "sum", "probe_r"), ("src", "sink_cfg", "sink_ctx", "sink"), ("src", "mul3", "mul", "muldef"),
    ("src", "sweep_two", "sum", "sweep_two_b"), ("src", "sweep_two_b", "sum", "sweep_two", "sum"), ("src", "mulnone", "muldefnone"), ("src", "mulinf", "probe_r"),
]
ALPHA_SMALL = ["src", "mul", "muldef", "fail", "badw", "interrupt", "abort", "sum", "probe_factor", "ren_r_factor", "bogus", "probe_nokey", "sink"]


# the 7 distinct option sets of the detail flags {hash, repr, context} (+ odd spellings of two of them)
DETAIL_SETS = ["hash", "repr", "context", "all", "hash,repr", "hash,context", "repr,context", " Repr , CONTEXT,bogus", "bogus"]


def open_fds_on(path_prefix: str) -> List[str]:
    out = []
    for fd in os.listdir("/proc/self/fd"):
        try:
            t = os.readlink(f"/proc/self/fd/{fd}")
        except OSError:
            continue
        if t.startswith(path_prefix) and t.endswith(".jsonl"):
            out.append(t)
    return out


def first_accepted_kind(prog) -> str:
    """Initial data of the kind the first data node accepts, so that runs get past node 0."""
    for s in prog:
        sym = gen.SYMBOLS[s]
        k = sym.get("in", interp.INPUT_KIND.get(sym["kind"]))
        if k:
            return {"N": "none", "F": "float", "C": "coll"}[k]
    return "none"


# one node-definition OBJECT listed several times (Python API / YAML alias): every occurrence is its own node in the trace
ALIASED_PROGS = [("src", "mul3", "mul3"), ("src", "probe_r", "probe_r", "mul3", "mul3", "probe_r"), ("src", "mul3", "fail", "mul3"), ("src", "mul3", "mul3", "fail"),
                 ("sweep_src", "slice_mul3", "slice_mul3", "sum"), ("src", "sweep_op", "sum", "sweep_op", "sum"), ("src", "src")]


def judge_case(prog, ctx, detail, mode, scratch, aliased: bool = False) -> Tuple[Optional[Tuple[str, str]], dict]:
    dkind = first_accepted_kind(prog)
    ref = interp.run(prog, gen.ref_data(dkind), ctx)
    try:
        pipe0 = None
        if aliased:
            from mc.props.c01 import build_aliased

            pipe0 = build_aliased(prog)
        records, files, real, pipe, driver = traces.traced_single(prog, dkind, ctx, detail=detail, mode=mode, scratch=scratch, pipeline=pipe0)
    except traces.TraceUnreadable as exc:
        return ("trace-not-parsable", f"the trace file cannot be read back as JSON lines: {exc}"), {"class": f"{ref.status}:{ref.error}@{ref.index}", "records": 0}
    except Exception as exc:  # loader / Pipeline() refuses the configuration: nothing ran, nothing to trace
        if not (ref.status == "construct" and ref.error == type(exc).__name__):
            return ("loader-or-driver-refuses-valid-configuration", f"{type(exc).__name__}: {str(exc)[:200]} (reference: {ref.status} {ref.error})"), \
                {"class": "loader-rejects:" + type(exc).__name__}
        return None, {"class": "loader-rejects:" + type(exc).__name__}
    info = {"class": f"{ref.status}:{ref.error}@{ref.index}", "records": len(records)}
    returned = real.status == "ok"
    # the exception that reaches the caller is the original one
    if ref.status != real.status or ref.error != real.error or (ref.status == "fail" and ref.index != real.index):
        return ("traced-run-outcome-differs-from-reference",
                f"reference {ref.status} {ref.error}@{ref.index}; traced run {real.status} {real.error}@{real.index}: {real.exc!r}"), info
    if ref.error in ("ValueError", "RuntimeError") and ref.reason == "deliberate":
        from verif_lib.components import EMPTY_ERROR, THE_ERROR

        if real.exc is not (THE_ERROR if ref.error == "ValueError" else EMPTY_ERROR):
            return ("exception-not-original", f"caller received {real.exc!r}, not the object the processor raised"), info
    started = len(prog) if returned else (0 if ref.status == "construct" else ref.index + 1)
    if mode == "dir" and len(files) > 1:
        return ("grammar-multiple-files", f"one run wrote {sorted(files)}"), info
    bad = tracegrammar.check_single_run(records, returned=returned, nodes_started=started)
    if bad:
        return bad, info
    leaked = open_fds_on(scratch)
    if leaked or getattr(driver, "_file", None) is not None:
        return ("trace-file-left-open", f"descriptors still open after the call: {leaked}"), info
    return None, info


HISTORY_PROGS = [("src", "mul", "sink"), ("src", "two", "probe_r"), ("src_ctx", "failif", "sink"), ("src", "mul", "failif", "tmpl_a"),
                 ("src", "probe_r", "ren_r_factor", "mul", "del_a"), ("sweep_src", "slice_mul", "sum")]


def judge_history(prog, ctxs, detail, mode, scratch) -> List[Tuple[str, str, dict]]:
    """Several runs on ONE Pipeline object (as a run-space launch or a long-lived service does), each into its own trace:
    every run's trace must be well-formed for THAT run's outcome, whatever happened in the runs before it."""
    from semantiva.pipeline import Pipeline

    out: List[Tuple[str, str, dict]] = []
    cfg = harness.load_config(gen.yaml_config(prog))
    pipe = Pipeline(cfg.nodes)
    dkind = first_accepted_kind(prog)
    for k, ctx in enumerate(ctxs):
        ref = interp.run(prog, gen.ref_data(dkind), ctx)
        records, files, real, _, driver = traces.traced_single(prog, dkind, ctx, detail=detail, mode=mode, scratch=scratch, pipeline=pipe)
        returned = real.status == "ok"
        case = {"prog": list(prog), "ctxs": ctxs, "detail": detail, "mode": mode, "kind": "history"}
        if ref.status != real.status or ref.error != real.error:
            out.append(("traced-run-outcome-differs-from-reference|history", f"run {k} of {list(prog)} with {ctx}: reference {ref.status} {ref.error}; run {real.status} {real.error}", case))
            continue
        started = len(prog) if returned else (0 if ref.status == "construct" else ref.index + 1)
        bad = tracegrammar.check_single_run(records, returned=returned, nodes_started=started)
        if bad:
            prev = "after-failed-run" if k and any(interp.run(prog, gen.ref_data(dkind), c).status != "ok" for c in ctxs[:k]) else "after-ok-run" if k else "first-run"
            out.append((f"{bad[0]}|history|{prev}", f"run {k} of {list(prog)} with {ctx} (same Pipeline object, previous contexts {ctxs[:k]}): {bad[1]}", case))
        if open_fds_on(scratch):
            out.append(("trace-file-left-open|history", f"run {k} of {list(prog)}", case))
    return out


def history_jobs(tier: str):
    jobs = []
    for prog in HISTORY_PROGS:
        cs = gen.contexts_for(prog, max_keys=2, extra=False)
        cs = [c for c in cs if all(v not in (0, 0.0, False) or isinstance(v, str) for v in c.values())][:4]
        seqs = [[a, b] for a in cs for b in cs]
        if tier == "thorough":
            seqs += [[a, b, c] for a in cs for b in cs for c in cs]
        for i, seq in enumerate(seqs):
            jobs.append(("history", prog, seq, ["hash", "all"][i % 2], ["file", "dir"][(i // 2) % 2]))
    return jobs


def cases_for(prog) -> List[Dict[str, Any]]:
    ks = gen.read_keys(prog)
    full = {k: gen.KEY_VALUES.get(k, 0.0625) for k in ks if k not in ("b", "t_values")}
    return [{}, full] if full else [{}]


def _worker(chunk):
    harness.quiet()
    scratch = harness.enter_scratch()
    out = {"n": 0, "classes": {}, "viol": [], "nontrivial": set(), "sample": None}
    for item in chunk:
        if item[0] == "history":
            _, prog, seq, detail, mode = item
            for sig, msg, case in judge_history(prog, seq, detail, mode, scratch):
                out["viol"].append((sig, msg, case, "history"))
            out["n"] += len(seq)
            out["nontrivial"].add(core.sha([prog, seq]))
            continue
        aliased = len(item) > 3
        prog, detail, mode = item[:3]
        ctxs = cases_for(prog)
        if len(prog) <= 2 and len(ctxs) > 1 and not aliased:
            # numbers that are numbers for the processors but not for a JSON encoder, at every key the program reads
            import fractions

            import numpy as np

            for k in sorted(ctxs[-1]):
                if isinstance(ctxs[-1][k], float):
                    ctxs = ctxs + [{**ctxs[-1], k: v} for v in (np.int64(3), fractions.Fraction(1, 2))]
        for ctx in ctxs:
            bad, info = judge_case(prog, ctx, detail, mode, scratch, aliased)
            out["n"] += 1
            c = info["class"].split("@")[0]
            out["classes"][c] = out["classes"].get(c, 0) + 1
            if info.get("records", 0) >= 3 or "fail" in c or "construct" in c:
                out["nontrivial"].add(core.sha([prog, ctx, info["class"]]))
            if bad:
                out["viol"].append((bad[0] + ("|shared-node-definition" if aliased else ""), bad[1],
                                    {"prog": list(prog), "ctx": ctx, "detail": detail, "mode": mode, "aliased": aliased}, info["class"]))
            if out["sample"] is None and info.get("records", 0) >= 4:
                out["sample"] = {"prog": list(prog), "ctx": ctx, "detail": detail, "mode": mode, "outcome": info["class"], "records": info["records"]}
        from mc.props.c01 import _housekeeping

        _housekeeping()
    out["nontrivial"] = list(out["nontrivial"])
    return out


def plan(tier: str):
    if tier == "quick":
        progs = gen.programs(ALPHA_FULL, [1, 2]) + gen.programs(ALPHA_SMALL, [3])
        details, modes = ["hash", "repr", "context", "all"], ["file", "dir"]
    else:
        progs = gen.programs(ALPHA_FULL, [1, 2, 3]) + gen.programs(ALPHA_SMALL, [4])
        details, modes = list(DETAIL_SETS), ["file", "dir"]
    progs = list(progs) + list(SAME_FAMILY_PROGS) + list(gen.MENU_PROGS) + list(gen.LONG_PROGS)
    jobs = []
    for i, p in enumerate(sorted(set(progs))):
        if len(p) <= 2:
            for j, d in enumerate(details):
                for m in (modes if tier != "quick" or len(p) == 1 else [modes[(i + j) % 2]]):
                    jobs.append((p, d, m))
        else:
            # longer programs: rotate through the (all 7 distinct flag sets) x mode grid (every combination occurs for every failure kind/index)
            k = i % (len(DETAIL_SETS) * len(modes))
            jobs.append((p, DETAIL_SETS[k % len(DETAIL_SETS)], modes[k // len(DETAIL_SETS)]))
    for i, p in enumerate(ALIASED_PROGS):
        for j, d in enumerate(["hash", "all"] if tier == "quick" else details):
            jobs.append((p, d, modes[(i + j) % 2], "aliased"))
    return jobs


def failure_signature(sig: str, klass: str) -> str:
    """Known-finding signatures are abstracted to (violation class, failure kind) so that a different failure
    kind with the same symptom is still reported."""
    kind = klass.split("@")[0]
    return f"{sig}|{kind}"


def check(tier: str, seed: int) -> Result:
    jobs = core.seeded_order(plan(tier) + history_jobs(tier), seed)
    tot = 0
    classes: Dict[str, int] = {}
    nontrivial = set()
    viols: List[Violation] = []
    samples = []
    for o in core.pmap_chunks(_worker, jobs, chunk=max(8, len(jobs) // (core.NPROC * 8)), maxtasks=4):
        tot += o["n"]
        nontrivial.update(o["nontrivial"])
        for k, v in o["classes"].items():
            classes[k] = classes.get(k, 0) + v
        for sig, msg, case, klass in o["viol"]:
            if klass == "history":
                viols.append(Violation(sig, msg, case))
            else:
                viols.append(Violation(failure_signature(sig, klass), f"{case['prog']} ctx={case['ctx']} detail={case['detail']} mode={case['mode']}: {msg}", case))
        if o["sample"] and len(samples) < 4:
            samples.append(o["sample"])
    cov = {
        "evaluations": tot, "distinct_nontrivial": len(nontrivial),
        "rule": "all programs of length 1-2 over a 20-symbol alphabet holding one symbol per failure kind, length 3 (thorough 1-3 / 4) over a "
                "12-symbol one, so every node index is a failure point for every kind; x {empty, full} context x detail levels x file/dir "
                "output; non-trivial = distinct (program, context) whose run failed, failed to construct, or emitted >= 3 records",
        "failure_classes_exercised": classes, "samples": samples, "exhaustive": True,
    }
    return Result("fault_enumeration", cov, viols, [
        "schemas are the package's own files resolved through its registry; date-time checked by the harness's RFC 3339 parser",
    ])


def replay(case) -> List[Violation]:
    harness.quiet()
    scratch = harness.enter_scratch()
    if case.get("kind") == "history":
        return [Violation(s, m, c) for s, m, c in judge_history(tuple(case["prog"]), case["ctxs"], case["detail"], case["mode"], scratch)]
    bad, info = judge_case(tuple(case["prog"]), case["ctx"], case["detail"], case["mode"], scratch, bool(case.get("aliased")))
    return [Violation(failure_signature(bad[0], info["class"]), bad[1], case)] if bad else []


# ---------------------------------------------------------------------------------------------
# environment grid (mc/envgrid.py): the shape of the trace and the exception that reaches the caller do not depend on the process

# one node resolving four parameters from the context: whatever lists them (required keys, checks, sources) has 24 possible orders
ENV_MANY_KEYS = [("src", "five_cfg"), ("src", "five_cfg", "probe_r"), ("src_ctx", "five_cfg", "tmpl_a")]


def env_cases(tier: str):
    from mc import envgrid

    jobs = [j for j in plan("quick") if len(j) == 3]
    short = [j for j in jobs if len(j[0]) <= 2]
    long_ = [j for j in jobs if len(j[0]) > 2]
    sel = envgrid.pick(short, 30 if tier == "quick" else 200) + envgrid.pick(long_, 30 if tier == "quick" else 200)
    sel += [(p, d, "file") for p in ENV_MANY_KEYS for d in ("hash", "all")]
    return [{"prog": list(p), "detail": d, "mode": m, "ctx": cases_for(p)[-1]} for p, d, m in sel]


def env_observe(case):
    from mc import envgrid

    scratch = envgrid.scratch()
    bad, info = judge_case(tuple(case["prog"]), case["ctx"], case["detail"], case["mode"], scratch)
    return envgrid.norm({"judged": bad[0] if bad else None, "class": info.get("class"), "records": info.get("records")}, scratch)
