"""Harness processors.  Every processor appends (class name, received parameters) to LOG —
the harness's independent account of what ran, in which order, with which values."""
from __future__ import annotations

import os
from typing import Any, List, Tuple

from semantiva.context_processors import ContextType
from semantiva.data_io import DataSink, DataSource, PayloadSink, PayloadSource
from semantiva.data_processors import DataOperation, DataProbe
from semantiva.examples.test_utils import FloatDataCollection, FloatDataType
from semantiva.pipeline import Payload

LOG: List[Tuple[str, dict]] = []
THE_ERROR = ValueError("verif: deliberate processor failure")
FAIL_MARKER = 666.0


LOG_ON = [True]


def _log(name: str, **params: Any) -> None:
    if not LOG_ON[0]:
        return
    LOG.append((name, dict(params)))
    side = os.environ.get("VERIF_LOG_FILE")
    if side:
        with open(side, "a") as f:
            f.write(f"{name} {sorted(params.items())!r}\n")


class _FloatOp(DataOperation):
    @classmethod
    def input_data_type(cls):
        return FloatDataType

    @classmethod
    def output_data_type(cls):
        return FloatDataType


class VSrc(DataSource):
    """Source producing FloatDataType(value)."""

    @classmethod
    def _get_data(cls, value: float) -> FloatDataType:
        _log("VSrc", value=value)
        return FloatDataType(float(value))

    @classmethod
    def output_data_type(cls):
        return FloatDataType


class VSrcDef(DataSource):
    """Source producing FloatDataType(value), default 42.0."""

    @classmethod
    def _get_data(cls, value: float = 42.0) -> FloatDataType:
        _log("VSrcDef", value=value)
        return FloatDataType(float(value))

    @classmethod
    def output_data_type(cls):
        return FloatDataType


class VPaySrc(PayloadSource):
    """Payload source: data 7.0, injects context key b=5.0."""

    @classmethod
    def _get_payload(cls) -> Payload:
        _log("VPaySrc")
        return Payload(FloatDataType(7.0), ContextType({"b": 5.0}))

    @classmethod
    def output_data_type(cls):
        return FloatDataType

    @classmethod
    def _injected_context_keys(cls):
        return ["b"]


class VMul(_FloatOp):
    """Multiply by factor."""

    def _process_logic(self, data, factor: float):
        _log("VMul", factor=factor)
        return FloatDataType(data.data * factor)


class VMulDef(_FloatOp):
    """Multiply by factor (default 2.0)."""

    def _process_logic(self, data, factor: float = 2.0):
        _log("VMulDef", factor=factor)
        return FloatDataType(data.data * factor)


class VAdd(_FloatOp):
    """Add addend."""

    def _process_logic(self, data, addend: float):
        _log("VAdd", addend=addend)
        return FloatDataType(data.data + addend)


class VTwo(_FloatOp):
    """data * factor + addend (addend defaults to 0.5)."""

    def _process_logic(self, data, factor: float, addend: float = 0.5):
        _log("VTwo", factor=factor, addend=addend)
        return FloatDataType(data.data * factor + addend)


class VKwMix(_FloatOp):
    """data * factor + offset: an ordinary parameter with a default next to a keyword-only parameter without one."""

    def _process_logic(self, data, factor: float = 2.0, *, offset: float):
        _log("VKwMix", factor=factor, offset=offset)
        return FloatDataType(data.data * factor + offset)


class VFive(_FloatOp):
    """data * factor + addend + offset + gain + bias: five parameters, none with a default."""

    def _process_logic(self, data, factor: float, addend: float, offset: float, gain: float, bias: float):
        _log("VFive", factor=factor, addend=addend, offset=offset, gain=gain, bias=bias)
        return FloatDataType(data.data * factor + addend + offset + gain + bias)


class VCtxWrite(_FloatOp):
    """Writes context key a = data + 0.25, returns data + 1."""

    @classmethod
    def context_keys(cls):
        return ["a"]

    def _process_logic(self, data):
        _log("VCtxWrite")
        self._notify_context_update("a", data.data + 0.25)
        return FloatDataType(data.data + 1.0)


DEFAULT_NEST = {"alpha": 1, "limits": {"lo": 0, "hi": 9}}


def reversed_order(d):
    """Same content, reversed key insertion order at every depth."""
    if isinstance(d, dict):
        return {k: reversed_order(d[k]) for k in reversed(list(d))}
    return d


class VNestWrite(_FloatOp):
    """Writes context key nest = the nested mapping it received (or a default one) with its keys inserted in reverse order:
    equal content, different layout.  Data passes through."""

    @classmethod
    def context_keys(cls):
        return ["nest"]

    def _process_logic(self, data, nest: dict = None):
        _log("VNestWrite", nest=nest)
        self._notify_context_update("nest", reversed_order(nest if nest is not None else DEFAULT_NEST))
        return FloatDataType(data.data)


class VSleep(_FloatOp):
    """Passes the data through after sleeping `seconds` (a node that takes real time)."""

    def _process_logic(self, data, seconds: float = 0.0):
        import time as _t

        _log("VSleep", seconds=seconds)
        _t.sleep(seconds)
        return FloatDataType(data.data)


class VItemSum(_FloatOp):
    """data + sum(items): consumes whatever iterable it is given (a list, a tuple, a one-shot iterator)."""

    def _process_logic(self, data, items=None):
        total = sum(float(x) for x in items) if items is not None else 0.0
        _log("VItemSum", total=total)
        return FloatDataType(data.data + total)


class VBadWrite(_FloatOp):
    """Writes an undeclared context key."""

    @classmethod
    def context_keys(cls):
        return ["a"]

    def _process_logic(self, data):
        _log("VBadWrite")
        self._notify_context_update("zz", 1.0)
        return FloatDataType(data.data)


class VFail(_FloatOp):
    """Always raises one singleton ValueError."""

    def _process_logic(self, data):
        _log("VFail")
        raise THE_ERROR


EMPTY_ERROR = RuntimeError()  # str() == "": a legal exception with no message at all


class VFailEmpty(_FloatOp):
    """Always raises one singleton RuntimeError that carries no message."""

    def _process_logic(self, data):
        _log("VFailEmpty")
        raise EMPTY_ERROR


class VInterrupt(_FloatOp):
    """Raises KeyboardInterrupt."""

    def _process_logic(self, data):
        _log("VInterrupt")
        raise KeyboardInterrupt("verif: deliberate interrupt")


class VFailIf(_FloatOp):
    """Fails iff context value a equals the marker (666.0)."""

    def _process_logic(self, data, a: float = 0.0):
        _log("VFailIf", a=a)
        if a == FAIL_MARKER:
            raise THE_ERROR
        return FloatDataType(data.data)


class VSum(DataOperation):
    """Sum a FloatDataCollection into a FloatDataType."""

    @classmethod
    def input_data_type(cls):
        return FloatDataCollection

    @classmethod
    def output_data_type(cls):
        return FloatDataType

    def _process_logic(self, data):
        _log("VSum")
        return FloatDataType(float(sum(item.data for item in data.data)))


class VKwMul(_FloatOp):
    """Multiply by factor; factor is keyword-only and has no default."""

    def _process_logic(self, data, *, factor: float):
        _log("VKwMul", factor=factor)
        return FloatDataType(data.data * factor)


class VKwTwo(_FloatOp):
    """data * factor + addend; addend is keyword-only (default 0.5)."""

    def _process_logic(self, data, factor: float, *, addend: float = 0.5):
        _log("VKwTwo", factor=factor, addend=addend)
        return FloatDataType(data.data * factor + addend)


class _FloatProbe(DataProbe):
    @classmethod
    def input_data_type(cls):
        return FloatDataType


class VProbe(_FloatProbe):
    """Returns the float value."""

    def _process_logic(self, data):
        _log("VProbe")
        return data.data


class VGainProbe(_FloatProbe):
    """Returns value * gain (default 1.0)."""

    def _process_logic(self, data, gain: float = 1.0):
        _log("VGainProbe", gain=gain)
        return data.data * gain


class VEchoProbe(_FloatProbe):
    """Returns a NEW data object of the input's own type (value + 1): a probe result may be anything, the data still passes through."""

    def _process_logic(self, data):
        _log("VEchoProbe")
        return FloatDataType(data.data + 1.0)


class VKwGainProbe(_FloatProbe):
    """Returns value * gain; gain is keyword-only (default 1.0)."""

    def _process_logic(self, data, *, gain: float = 1.0):
        _log("VKwGainProbe", gain=gain)
        return data.data * gain


class VFactorProbe(_FloatProbe):
    """Returns value * factor (no default)."""

    def _process_logic(self, data, factor: float):
        _log("VFactorProbe", factor=factor)
        return data.data * factor


class VTxtSink(DataSink[FloatDataType]):
    """Writes the float to the text file `path`."""

    @classmethod
    def _send_data(cls, data: FloatDataType, path: str):
        _log("VTxtSink", path=path)
        with open(path, "a") as f:
            f.write(repr(data.data) + "\n")

    @classmethod
    def input_data_type(cls):
        return FloatDataType


class VSink(DataSink[FloatDataType]):
    """Sink without parameters."""

    @classmethod
    def _send_data(cls, data: FloatDataType):
        _log("VSink")

    @classmethod
    def input_data_type(cls):
        return FloatDataType


class VPaySink(PayloadSink[FloatDataType]):
    """Payload sink."""

    @classmethod
    def _send_payload(cls, payload: Payload):
        _log("VPaySink")

    @classmethod
    def input_data_type(cls):
        return FloatDataType


# ---- IO components whose data side is NoDataType (context-only sources, trigger sources, null sinks): legal, and their generated
# adapters must declare that type like any other
from semantiva.data_types import NoDataType  # noqa: E402


class VTriggerSrc(DataSource):
    """Source producing no data at all (a trigger)."""

    @classmethod
    def _get_data(cls) -> NoDataType:
        _log("VTriggerSrc")
        return NoDataType()

    @classmethod
    def output_data_type(cls):
        return NoDataType


class VCtxOnlyPaySrc(PayloadSource):
    """Payload source that only injects context key c0=1.0; no data."""

    @classmethod
    def _get_payload(cls) -> Payload:
        _log("VCtxOnlyPaySrc")
        return Payload(NoDataType(), ContextType({"c0": 1.0}))

    @classmethod
    def output_data_type(cls):
        return NoDataType

    @classmethod
    def _injected_context_keys(cls):
        return ["c0"]


class VNullSink(DataSink[NoDataType]):
    """Sink that accepts 'no data'."""

    @classmethod
    def _send_data(cls, data: NoDataType):
        _log("VNullSink")

    @classmethod
    def input_data_type(cls):
        return NoDataType


class VNullPaySink(PayloadSink[NoDataType]):
    """Payload sink that accepts 'no data' (context only)."""

    @classmethod
    def _send_payload(cls, payload: Payload):
        _log("VNullPaySink")

    @classmethod
    def input_data_type(cls):
        return NoDataType


class VSrc2(DataSource):
    """Source producing FloatDataType(value + offset); offset defaults to 0.5."""

    @classmethod
    def _get_data(cls, value: float, offset: float = 0.5) -> FloatDataType:
        _log("VSrc2", value=value, offset=offset)
        return FloatDataType(float(value) + float(offset))

    @classmethod
    def output_data_type(cls):
        return FloatDataType


class VTwoProbe(_FloatProbe):
    """Returns value * factor * gain (gain defaults to 1.0)."""

    def _process_logic(self, data, factor: float, gain: float = 1.0):
        _log("VTwoProbe", factor=factor, gain=gain)
        return data.data * factor * gain


class VNested(_FloatOp):
    """Pass-through operation with structured parameters (used for identity checks)."""

    def _process_logic(self, data, opts: dict = None, items: list = None, label: str = "x"):
        _log("VNested", opts=opts, items=items, label=label)
        return FloatDataType(data.data)


class VColl2(FloatDataCollection):
    """A second collection type (identity checks: sweep `collection` mutation)."""


CENSUS: dict = {"count": 0, "at": (50, 150, 450), "snapshots": {}, "warm": 25}


def census_reset(at=(50, 150, 450)):
    CENSUS["count"] = 0
    CENSUS["at"] = tuple(at)
    CENSUS["snapshots"] = {}


def _transport_owned(transports) -> set:
    """ids of all objects reachable from the queues of the given in-memory transports (bounded: stops at
    classes, modules, module dictionaries and the logging package's own objects)."""
    import gc
    import types as _types

    seen: set = set()
    stack = [t._queues for t in transports]
    while stack:
        o = stack.pop()
        if id(o) in seen:
            continue
        if isinstance(o, (type, _types.ModuleType, _types.CodeType)) or type(o).__module__.startswith("logging"):
            continue
        if isinstance(o, dict) and "__name__" in o and "__builtins__" in o:
            continue  # a module's globals
        seen.add(id(o))
        stack.extend(gc.get_referents(o))
    return seen


def take_census() -> dict:
    """Abstract process state: registry list lengths + census of gc-tracked objects by type.

    Objects owned by in-memory transport queues are counted separately (messages queued, channels), so that
    residue of that one kind can be told apart from any other growth."""
    import collections
    import gc

    from semantiva.core.semantiva_component import get_component_registry
    from semantiva.execution.transport.in_memory import InMemorySemantivaTransport

    gc.collect()
    reg = {k: len(v) for k, v in get_component_registry().items()}
    objs_all = gc.get_objects()
    # exact MRO test: isinstance() against an ABC would itself leave weak references in the ABC's caches
    transports = [o for o in objs_all if InMemorySemantivaTransport in type(o).__mro__]
    owned = _transport_owned(transports)
    # snapshots of a transport's channel table held by a suspended subscription iterator:
    # (channel, (deque, lock)) item tuples whose only tracked content is transport-owned
    for o in objs_all:
        if type(o) is tuple and id(o) not in owned:
            tracked = [r for r in gc.get_referents(o) if gc.is_tracked(r)]
            if tracked and all(id(r) in owned for r in tracked):
                owned.add(id(o))
    objs = collections.Counter(type(o).__name__ for o in objs_all if id(o) not in owned)
    messages = sum(len(q) for t in transports for (q, _lock) in t._queues.values())
    channels = sum(len(t._queues) for t in transports)
    return {"registry": reg, "objects": dict(objs), "registry_total": sum(reg.values()), "objects_total": sum(objs.values()),
            "transport_messages": messages, "transport_channels": channels, "transports": len(transports)}


class VCensus(_FloatOp):
    """Pass-through operation that snapshots the process census at configured run counts."""

    def _process_logic(self, data):
        CENSUS["count"] += 1
        if CENSUS["count"] == CENSUS["warm"]:
            take_census()  # warm the census machinery itself (imports, ABC caches) before the first real snapshot
        if CENSUS["count"] in CENSUS["at"]:
            import json as _json

            # stored as a string: a stored dict would itself be counted by the next census
            CENSUS["snapshots"][CENSUS["count"]] = _json.dumps(take_census())
        return data


class VerifAbort(BaseException):
    """An abort-class exception that is neither an Exception nor KeyboardInterrupt."""


class VAbort(_FloatOp):
    """Raises a custom BaseException subclass."""

    def _process_logic(self, data):
        _log("VAbort")
        raise VerifAbort("verif: deliberate abort")


class VSysExit(_FloatOp):
    """Raises SystemExit (sys.exit inside a processor)."""

    def _process_logic(self, data):
        _log("VSysExit")
        raise SystemExit(3)


class Trip:
    """A context value whose user-visible hooks are tripwires: comparing, hashing, truth-testing, measuring or iterating it
    raises.  repr() and attribute access are harmless.  (Observational tracing may serialise or repr it, never compare it.)"""

    def __init__(self, tag="trip"):
        self.tag = tag

    def __repr__(self):
        return f"Trip({self.tag!r})"

    def __eq__(self, other):
        raise ValueError("verif: Trip.__eq__ called")

    def __ne__(self, other):
        raise ValueError("verif: Trip.__ne__ called")

    __hash__ = None

    def __bool__(self):
        raise ValueError("verif: Trip.__bool__ called")

    def __len__(self):
        raise ValueError("verif: Trip.__len__ called")

    def __iter__(self):
        raise ValueError("verif: Trip.__iter__ called")


# ---- legal components WITHOUT a docstring (cls.__doc__ is None) ------------------------------------------------------

class VNoDocSrc(DataSource):
    @classmethod
    def _get_data(cls, value: float = 1.0) -> FloatDataType:
        return FloatDataType(float(value))

    @classmethod
    def output_data_type(cls):
        return FloatDataType


class VNoDocOp(_FloatOp):
    @classmethod
    def context_keys(cls):
        return ["nd"]

    def _process_logic(self, data, factor: float = 2.0):
        self._notify_context_update("nd", data.data)
        return FloatDataType(data.data * factor)


class VNoDocProbe(_FloatProbe):
    def _process_logic(self, data):
        return data.data


class VNoDocSink(DataSink[FloatDataType]):
    @classmethod
    def _send_data(cls, data: FloatDataType):
        return None

    @classmethod
    def input_data_type(cls):
        return FloatDataType


class VNoDocPaySrc(PayloadSource):
    @classmethod
    def _get_payload(cls) -> Payload:
        return Payload(FloatDataType(1.0), ContextType({"nb": 1.0}))

    @classmethod
    def output_data_type(cls):
        return FloatDataType

    @classmethod
    def _injected_context_keys(cls):
        return ["nb"]


for _c in (VNoDocSrc, VNoDocOp, VNoDocProbe, VNoDocSink, VNoDocPaySrc):
    _c.__doc__ = None
