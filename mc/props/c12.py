"""C12 — equal ExpressionSigV1 signatures imply equal values; AC-rearranged forms agree.

Bounded-exhaustive enumeration of expression trees (bottom-up, with exact value vectors over a
complete integer grid and an exact polynomial normal form where one exists), grouped by the
signature the implementation computes.  Oracles:

  soundness     same signature  =>  same exact polynomial normal form (polynomial fragment) and the
                same value on every grid point (everything else);
  AC-invariance same reference AC-normal form (flatten + / * chains, sort the operand multiset,
                recursively)  =>  same signature;
  sensitivity   single-point mutants (operand swap of a non-commutative operator, constant,
                variable, function) that are semantically different have a different signature
                (contrapositive of soundness, applied to an explicit mutant family).
"""
from __future__ import annotations

import ast
import itertools
import json
from fractions import Fraction
from typing import Any, Dict, List, Optional, Tuple

from mc import core
from mc.core import Result, Violation

BIG = "BIG"
ERR = "ERR"


# ---------------------------------------------------------------------------------------------
# Expression representation: nested tuples.
#   ("v", name) | ("c", int) | ("u", op, e) | ("b", op, l, r) | ("f", name, args...) | ("if", c, a, b)
BIN_TXT = {"+": "+", "-": "-", "*": "*", "//": "//", "%": "%", "**": "**",
           "==": "==", "!=": "!=", "<": "<", "<=": "<=", ">": ">", ">=": ">="}


def txt(e) -> str:
    k = e[0]
    if k == "v":
        return e[1]
    if k == "c":
        return str(e[1])
    if k == "u":
        return f"(-{txt(e[2])})"
    if k == "b":
        return f"({txt(e[2])} {e[1]} {txt(e[3])})"
    if k == "f":
        return f"{e[1]}({', '.join(txt(a) for a in e[2:])})"
    if k == "if":
        return f"({txt(e[2])} if {txt(e[1])} else {txt(e[3])})"
    raise AssertionError(e)


def _pow(a, b):
    if isinstance(b, bool):
        b = int(b)
    if isinstance(a, bool):
        a = int(a)
    if isinstance(b, Fraction) and b.denominator != 1:
        return BIG  # outside exact arithmetic
    if abs(b) > 16 or (abs(a) > 64):
        return BIG
    return Fraction(a) ** int(b)


def apply_bin(op, a, b):
    if a is ERR or b is ERR:
        return ERR
    if a is BIG or b is BIG:
        return BIG
    try:
        if op == "+":
            return a + b
        if op == "-":
            return a - b
        if op == "*":
            return a * b
        if op == "//":
            return a // b
        if op == "%":
            return a % b
        if op == "**":
            return _pow(a, b)
        if op == "==":
            return a == b
        if op == "!=":
            return a != b
        if op == "<":
            return a < b
        if op == "<=":
            return a <= b
        if op == ">":
            return a > b
        if op == ">=":
            return a >= b
        if op == "min":
            return min(a, b)
        if op == "max":
            return max(a, b)
    except ZeroDivisionError:
        return ERR
    raise AssertionError(op)


def canon_val(v):
    if v is ERR or v is BIG:
        return v
    if isinstance(v, bool):
        return ["b", int(v)]
    f = Fraction(v)
    return [f.numerator, f.denominator]


# ---- polynomial normal form: dict {monomial(tuple of (var,exp) sorted): Fraction} ----------------

def p_const(c):
    return {(): Fraction(c)} if c else {}


def p_var(v):
    return {((v, 1),): Fraction(1)}


def p_add(a, b, sign=1):
    out = dict(a)
    for m, c in b.items():
        out[m] = out.get(m, 0) + sign * c
        if out[m] == 0:
            del out[m]
    return out


def p_mul(a, b):
    out: Dict[tuple, Fraction] = {}
    for m1, c1 in a.items():
        for m2, c2 in b.items():
            d = dict(m1)
            for v, e in m2:
                d[v] = d.get(v, 0) + e
            m = tuple(sorted(d.items()))
            out[m] = out.get(m, 0) + c1 * c2
            if out[m] == 0:
                del out[m]
    return out


def p_key(p) -> Optional[str]:
    if p is None:
        return None
    return json.dumps(sorted(([list(map(list, m)), [c.numerator, c.denominator]] for m, c in p.items())))


def poly_of(e, memo) -> Optional[dict]:
    """Exact polynomial of e, or None when e is outside the polynomial fragment."""
    k = e[0]
    if k == "v":
        return p_var(e[1])
    if k == "c":
        return p_const(e[1])
    if k == "u":
        p = memo[e[2]][1]
        return None if p is None else p_add({}, p, -1)
    if k == "b":
        a, b = memo[e[2]][1], memo[e[3]][1]
        if a is None or b is None:
            return None
        if e[1] == "+":
            return p_add(a, b)
        if e[1] == "-":
            return p_add(a, b, -1)
        if e[1] == "*":
            return p_mul(a, b)
        if e[1] == "**":
            # constant non-negative small integer exponent only
            if set(b.keys()) <= {()}:
                c = b.get((), Fraction(0))
                if c.denominator == 1 and 0 <= c <= 6:
                    # note: 0**0 == 1 in Python and in this normal form (empty product)
                    out = p_const(1)
                    for _ in range(int(c)):
                        out = p_mul(out, a)
                    return out
            return None
    return None


# ---- reference AC normal form ---------------------------------------------------------------

def ac_norm(e) -> Any:
    k = e[0]
    if k in ("v", "c"):
        return e
    if k == "u":
        return ("u", e[1], ac_norm(e[2]))
    if k == "b":
        if e[1] in ("+", "*"):
            terms: List[Any] = []

            def collect(t):
                if t[0] == "b" and t[1] == e[1]:
                    collect(t[2])
                    collect(t[3])
                else:
                    terms.append(ac_norm(t))

            collect(e)
            return ("ac", e[1], tuple(sorted(terms, key=repr)))
        return ("b", e[1], ac_norm(e[2]), ac_norm(e[3]))
    if k == "f":
        return ("f", e[1]) + tuple(ac_norm(a) for a in e[2:])
    if k == "if":
        return ("if", ac_norm(e[1]), ac_norm(e[2]), ac_norm(e[3]))
    raise AssertionError(e)


# ---- enumeration ----------------------------------------------------------------------------

class Alphabet:
    def __init__(self, vars_, consts, binops, funcs2, unary, ifelse, grid):
        self.vars = vars_
        self.consts = consts
        self.binops = binops
        self.funcs2 = funcs2
        self.unary = unary  # list among "-", "abs"
        self.ifelse = ifelse
        self.points = list(itertools.product(grid, repeat=len(vars_)))


def enumerate_exprs(al: Alphabet, max_leaves: int):
    """Bottom-up: by_size[n] = list of expressions with n leaves (top-level unary optional).

    memo[e] = (value vector over the grid, polynomial or None)
    """
    memo: Dict[Any, Tuple[tuple, Optional[dict]]] = {}
    by_size: Dict[int, List[Any]] = {}

    def add(e, vec, out):
        memo[e] = (vec, poly_of(e, memo))
        out.append(e)

    def with_unary(e, out):
        vec = memo[e][0]
        for u in al.unary:
            if e[0] == "u" or (e[0] == "f" and e[1] == "abs"):
                continue
            if u == "-":
                ne = ("u", "-", e)
                nv = tuple(x if x in (ERR, BIG) else -x for x in vec)
            else:
                ne = ("f", "abs", e)
                nv = tuple(x if x in (ERR, BIG) else abs(x) for x in vec)
            add(ne, nv, out)

    for n in range(1, max_leaves + 1):
        out: List[Any] = []
        base: List[Any] = []
        if n == 1:
            for i, v in enumerate(al.vars):
                add(("v", v), tuple(Fraction(p[i]) for p in al.points), base)
            for c in al.consts:
                add(("c", c), tuple(Fraction(c) for _ in al.points), base)
        else:
            for k in range(1, n):
                for l in by_size[k]:
                    lv = memo[l][0]
                    for r in by_size[n - k]:
                        rv = memo[r][0]
                        for op in al.binops:
                            add(("b", op, l, r), tuple(apply_bin(op, a, b) for a, b in zip(lv, rv)), base)
                        for fn in al.funcs2:
                            add(("f", fn, l, r), tuple(apply_bin(fn, a, b) for a, b in zip(lv, rv)), base)
            if al.ifelse and n >= 3:
                for k1 in range(1, n - 1):
                    for k2 in range(1, n - k1):
                        k3 = n - k1 - k2
                        for c in by_size[k1]:
                            cv = memo[c][0]
                            for a in by_size[k2]:
                                av = memo[a][0]
                                for b in by_size[k3]:
                                    bv = memo[b][0]
                                    vec = tuple(
                                        ERR if x is ERR else BIG if x is BIG else (y if x else z)
                                        for x, y, z in zip(cv, av, bv)
                                    )
                                    add(("if", c, a, b), vec, base)
        out.extend(base)
        for e in base:
            with_unary(e, out)
        by_size[n] = out
    return by_size, memo


def impl_sig(text: str) -> str:
    from semantiva.metadata.semantic_id import normalize_expression_sig_v1

    s = normalize_expression_sig_v1(text)
    assert s["format"] == "ExpressionSigV1"
    return s["ast"]


def vec_key(vec) -> str:
    return json.dumps([canon_val(v) for v in vec])


def vec_compatible(a: str, b: str) -> bool:
    """Equal on every grid point where neither side is BIG (outside exact small arithmetic)."""
    if a == b:
        return True
    la, lb = json.loads(a), json.loads(b)
    return all(x == y or x == BIG or y == BIG for x, y in zip(la, lb))


def _analyse(exprs_with_info) -> Dict[str, dict]:
    """Worker: returns sig -> {"sem": {semkey: text}, "ac": {ackey: text}}."""
    out: Dict[str, dict] = {}
    for text, semk, ack in exprs_with_info:
        s = impl_sig(text)
        g = out.setdefault(s, {"sem": {}, "ac": {}, "n": 0})
        g["n"] += 1
        g["sem"].setdefault(semk, text)
        g["ac"].setdefault(ack, text)
    return out


def run_family(name: str, al: Alphabet, max_leaves: int, stats: dict, viols: List[Violation]):
    by_size, memo = enumerate_exprs(al, max_leaves)
    allx = [e for n in sorted(by_size) for e in by_size[n]]
    items = []
    for e in allx:
        vec, poly = memo[e]
        pk = p_key(poly)
        semk = json.dumps([pk, vec_key(vec)])
        items.append((txt(e), semk, core.sha(ac_norm(e))))
    merged: Dict[str, dict] = {}
    for part in core.pmap_chunks(_analyse, items, chunk=4000):
        for s, g in part.items():
            m = merged.setdefault(s, {"sem": {}, "ac": {}, "n": 0})
            m["n"] += g["n"]
            for k, v in g["sem"].items():
                m["sem"].setdefault(k, v)
            for k, v in g["ac"].items():
                m["ac"].setdefault(k, v)
    # soundness: within a signature group all semantics agree
    ac_to_sig: Dict[str, Tuple[str, str]] = {}
    nontrivial = 0
    for s, g in merged.items():
        sems = list(g["sem"].items())
        if g["n"] > 1:
            nontrivial += 1
        for (k1, t1), (k2, t2) in itertools.combinations(sems, 2):
            p1, v1 = json.loads(k1)
            p2, v2 = json.loads(k2)
            bad = False
            if p1 is not None and p2 is not None:
                bad = p1 != p2
            else:
                bad = not vec_compatible(v1, v2)
            if bad:
                viols.append(Violation(
                    "unsound-signature",
                    f"same signature, different values: {t1!r} vs {t2!r}",
                    {"kind": "pair-same-sig", "a": t1, "b": t2, "vars": al.vars},
                ))
        for ack, t in g["ac"].items():
            if ack in ac_to_sig and ac_to_sig[ack][0] != s:
                viols.append(Violation(
                    "ac-rearrangement-changes-signature",
                    f"AC-equivalent forms with different signatures: {ac_to_sig[ack][1]!r} vs {t!r}",
                    {"kind": "pair-ac", "a": ac_to_sig[ack][1], "b": t, "vars": al.vars},
                ))
            ac_to_sig.setdefault(ack, (s, t))
    stats["families"][name] = {
        "expressions": len(items),
        "signature_groups": len(merged),
        "groups_with_more_than_one_member": nontrivial,
        "ac_classes": len(ac_to_sig),
        "max_leaves": max_leaves,
        "grid_points": len(al.points),
    }
    stats["evaluations"] += len(items)
    stats["nontrivial"] += nontrivial
    if len(stats["samples"]) < 6 and items:
        stats["samples"].append({"family": name, "expr": items[len(items) // 2][0],
                                 "signature": impl_sig(items[len(items) // 2][0])})
    return allx, memo


# ---- explicit chain permutations / bracketings and mutants -------------------------------------

def bracketings(ops: List[Any], op: str):
    if len(ops) == 1:
        yield ops[0]
        return
    for i in range(1, len(ops)):
        for l in bracketings(ops[:i], op):
            for r in bracketings(ops[i:], op):
                yield ("b", op, l, r)


def eval_expr(e, env):
    k = e[0]
    if k == "v":
        return Fraction(env[e[1]])
    if k == "c":
        return Fraction(e[1])
    if k == "u":
        v = eval_expr(e[2], env)
        return v if v in (ERR, BIG) else -v
    if k == "b":
        return apply_bin(e[1], eval_expr(e[2], env), eval_expr(e[3], env))
    if k == "f":
        if e[1] == "abs":
            v = eval_expr(e[2], env)
            return v if v in (ERR, BIG) else abs(v)
        return apply_bin(e[1], eval_expr(e[2], env), eval_expr(e[3], env))
    if k == "if":
        c = eval_expr(e[1], env)
        if c in (ERR, BIG):
            return c
        return eval_expr(e[2], env) if c else eval_expr(e[3], env)
    raise AssertionError(e)


def sem_vec(e, vars_, grid) -> str:
    return vec_key(tuple(eval_expr(e, dict(zip(vars_, p))) for p in itertools.product(grid, repeat=len(vars_))))


def mutants(e):
    """All single-point mutations (position-wise)."""
    k = e[0]
    if k == "v":
        for o in ("x", "y", "z"):
            if o != e[1]:
                yield ("v", o)
    elif k == "c":
        yield ("c", e[1] + 1)
        yield ("c", e[1] - 1)
    elif k == "u":
        yield e[2]
        for m in mutants(e[2]):
            yield ("u", e[1], m)
    elif k == "b":
        if e[1] not in ("+", "*"):
            yield ("b", e[1], e[3], e[2])  # operand swap of a non-commutative operator
        for o in ("+", "-", "*", "//", "%", "**", "<", "<="):
            if o != e[1]:
                yield ("b", o, e[2], e[3])
        for m in mutants(e[2]):
            yield ("b", e[1], m, e[3])
        for m in mutants(e[3]):
            yield ("b", e[1], e[2], m)
    elif k == "f":
        if e[1] in ("min", "max"):
            yield ("f", "max" if e[1] == "min" else "min") + e[2:]
        for i in range(2, len(e)):
            for m in mutants(e[i]):
                yield e[:i] + (m,) + e[i + 1:]
    elif k == "if":
        yield ("if", e[1], e[3], e[2])
        for i in (1, 2, 3):
            for m in mutants(e[i]):
                yield e[:i] + (m,) + e[i + 1:]


CHAIN_POOL = [
    ("v", "x"), ("v", "y"), ("v", "z"), ("c", 2), ("u", "-", ("v", "x")), ("u", "-", ("c", 1)),
    ("b", "-", ("v", "x"), ("v", "y")), ("b", "-", ("v", "y"), ("v", "x")),
    ("b", "*", ("v", "x"), ("v", "y")), ("b", "+", ("v", "y"), ("c", 1)),
    ("b", "//", ("v", "x"), ("c", 2)), ("b", "**", ("v", "x"), ("c", 2)),
    ("f", "abs", ("v", "y")), ("f", "min", ("v", "x"), ("v", "z")),
    ("u", "-", ("b", "*", ("v", "y"), ("v", "z"))), ("if", ("b", "<", ("v", "x"), ("v", "y")), ("v", "x"), ("c", 0)),
]


# the chain sits at depth 0, 1, 2 or 3 below roots of every node class (unary, call, if-else, comparison, non-commutative operator)
CHAIN_CONTEXTS = [
    lambda e: e,
    lambda e: ("u", "-", e),
    lambda e: ("u", "-", ("u", "-", e)),
    lambda e: ("f", "abs", ("u", "-", e)),
    lambda e: ("f", "max", ("c", 0), ("u", "-", e)),
    lambda e: ("f", "min", ("f", "abs", e), ("v", "y")),
    lambda e: ("if", ("b", "<", e, ("v", "y")), ("c", 1), ("c", 0)),
    lambda e: ("if", ("v", "y"), ("v", "x"), ("u", "-", e)),
    lambda e: ("if", ("f", "abs", ("u", "-", e)), ("c", 1), ("c", 0)),
    lambda e: ("b", "**", e, ("c", 2)),
    lambda e: ("b", "-", ("c", 2), ("f", "abs", ("u", "-", e))),
]


def _chain_worker(chunk):
    out = []
    grid = (-2, -1, 0, 1, 2, 3)
    for op, operands in chunk:
        base_sig = None
        base_txt = None
        n = 0
        ctx_base: Dict[int, Tuple[str, str]] = {}
        for perm in itertools.permutations(operands):
            for e in bracketings(list(perm), op):
                t = txt(e)
                s = impl_sig(t)
                n += 1
                if base_sig is None:
                    base_sig, base_txt = s, t
                elif s != base_sig:
                    out.append(("ac-rearrangement-changes-signature", base_txt, t))
                if len(operands) <= 3:
                    for ci, wrap in enumerate(CHAIN_CONTEXTS[1:], 1):
                        tw = txt(wrap(e))
                        sw = impl_sig(tw)
                        n += 1
                        if ci not in ctx_base:
                            ctx_base[ci] = (sw, tw)
                        elif sw != ctx_base[ci][0]:
                            out.append(("ac-rearrangement-changes-signature", ctx_base[ci][1], tw))
        # mutants of the first form
        e0 = next(bracketings(list(operands), op))
        v0 = sem_vec(e0, ("x", "y", "z"), grid)
        nm = 0
        for m in mutants(e0):
            nm += 1
            tm = txt(m)
            try:
                sm = impl_sig(tm)
            except SyntaxError:
                continue
            vm = sem_vec(m, ("x", "y", "z"), grid)
            if sm == base_sig and not vec_compatible(v0, vm):
                out.append(("unsound-signature", txt(e0), tm))
            out.append(("_count", 1 if (sm != base_sig) else 0, 1 if not vec_compatible(v0, vm) else 0))
        out.append(("_forms", n, nm))
    return out


def run_chains(k_operands: List[int], stats: dict, viols: List[Violation]):
    jobs = []
    for k in k_operands:
        for operands in itertools.combinations(CHAIN_POOL, k):
            for op in ("+", "*"):
                jobs.append((op, operands))
    forms = muts = sem_diff = sig_diff = 0
    for part in core.pmap_chunks(_chain_worker, jobs, chunk=8):
        for rec in part:
            if rec[0] == "_forms":
                forms += rec[1]
                muts += rec[2]
            elif rec[0] == "_count":
                sig_diff += rec[1]
                sem_diff += rec[2]
            else:
                kind = "pair-ac" if rec[0].startswith("ac-") else "pair-same-sig"
                viols.append(Violation(rec[0], f"{rec[0]}: {rec[1]!r} vs {rec[2]!r}",
                                       {"kind": kind, "a": rec[1], "b": rec[2], "vars": ["x", "y", "z"]}))
    stats["chains"] = {"operand_multisets": len(jobs), "rearranged_forms": forms, "mutants": muts,
                       "mutants_semantically_different": sem_diff, "mutants_signature_different": sig_diff}
    stats["evaluations"] += forms + muts
    stats["nontrivial"] += len(jobs)


GRID = (-2, -1, 0, 1, 2, 3)

BUILT_PAIRS = [("t - u", "u - t"), ("t // 2", "2 // t"), ("2 * t", "3 * t"), ("t - 1", "1 - t"), ("abs(t)", "-t"), ("max(t, u)", "min(t, u)"),
               ("t ** 2", "2 ** t"), ("t if t > u else u", "u if t > u else t"), ("t + u", "t * u")]


def long_chains() -> Tuple[int, List[Violation]]:
    """Beyond the small scope: + and * chains of 5 ... 120 operands in a fixed family of rearrangements (left-associated, reversed,
    rotated, ends swapped, folded from the right, two parenthesised halves, pairs) — one signature; one operand changed — another."""
    viols: List[Violation] = []
    n = 0
    for op in ("+", "*"):
        for k in (5, 8, 16, 31, 32, 33, 34, 40, 64, 100, 120):
            terms = [f"x{i}" if i % 4 else f"(y{i} - {i})" for i in range(k)]
            left = f" {op} ".join(terms)
            right = terms[-1]
            for t in reversed(terms[:-1]):
                right = f"{t} {op} ({right})"
            half = k // 2
            pairs = f" {op} ".join(f"({terms[i]} {op} {terms[i + 1]})" for i in range(0, k - 1, 2)) + (f" {op} {terms[-1]}" if k % 2 else "")
            forms = [left, f" {op} ".join(reversed(terms)), f" {op} ".join(terms[1:] + terms[:1]), f" {op} ".join([terms[-1]] + terms[1:-1] + [terms[0]]), right,
                     f"({f' {op} '.join(terms[half:])}) {op} ({f' {op} '.join(terms[:half])})", pairs]
            sigs = [impl_sig(f) for f in forms]
            n += len(forms) + 1
            for f, sg in zip(forms[1:], sigs[1:]):
                if sg != sigs[0]:
                    viols.append(Violation("ac-rearrangement-changes-signature", f"{k}-operand {op} chain: {left[:60]}... vs {f[:60]}...",
                                           {"kind": "pair-ac", "a": left, "b": f, "vars": []}))
                    break
            changed = f" {op} ".join(terms[:-1] + ["z"])
            if impl_sig(changed) == sigs[0]:
                viols.append(Violation("unsound-signature", f"{k}-operand {op} chain: replacing the last operand keeps the signature", {"kind": "long-same-sig", "a": left, "b": changed}))
    return n, viols


def built_slice() -> Tuple[int, List[Violation]]:
    """The signature a BUILT sweep class reports and the values it produces belong together: after the caller edits the mapping it
    passed to the factory, the class still reports the signature of the expression it evaluates (equal signatures => equal values)."""
    import verif_lib

    verif_lib.register()
    from semantiva.data_processors.parametric_sweep_factory import ParametricSweepFactory, SequenceSpec
    from semantiva.examples.test_utils import FloatDataCollection
    from verif_lib import components as VC

    def build(exprs):
        return ParametricSweepFactory.create(element=VC.VSrc, element_kind="DataSource", collection_output=FloatDataCollection,
                                             vars={"t": SequenceSpec([1.0, 3.0]), "u": SequenceSpec([2.0])}, parametric_expressions=exprs)

    def sig(cls):
        return cls.get_metadata()["preprocessor"]["param_expressions"]["value"]["sig"]["ast"]

    def vals(cls):
        return [x.data for x in cls.get_data().data]

    viols: List[Violation] = []
    n = 0
    for e1, e2 in BUILT_PAIRS + [(b, a) for a, b in BUILT_PAIRS]:
        exprs = {"value": e1}
        cls = build(exprs)
        s0, v0 = sig(cls), vals(cls)
        exprs["value"] = e2  # the caller goes on to edit ITS OWN mapping (a parameter-study loop re-using one dict)
        s1, v1 = sig(cls), vals(cls)
        fresh = build({"value": e2})
        sf, vf = sig(fresh), vals(fresh)
        n += 3
        if s1 != s0 or v1 != v0:
            viols.append(Violation("built-sweep-signature-follows-callers-mapping",
                                   f"a sweep built for {e1!r} reports signature {s1[:60]} / values {v1} after the caller changed its mapping to {e2!r} (was {s0[:60]} / {v0})",
                                   {"kind": "built", "a": e1, "b": e2}))
        elif s1 == sf and v1 != vf:
            viols.append(Violation("unsound-signature", f"two built sweeps report one signature and produce {v1} vs {vf}", {"kind": "built", "a": e1, "b": e2}))
    # somebody else in the process builds an evaluator with its own functions: the value of an expression compiled by a DEFAULT
    # evaluator — before or after — is still the one its signature stands for
    from semantiva.utils.safe_eval import ExpressionEvaluator

    probes = ["round(t / 2) + u", "u + round(t / 2)", "abs(t - 2) * max(t, u)", "min(t, u) + float(int(t))"]
    python_vals = {"round(t / 2) + u": [round(1.0 / 2) + 2.0, round(3.0 / 2) + 2.0], "u + round(t / 2)": [2.0 + round(1.0 / 2), 2.0 + round(3.0 / 2)],
                   "abs(t - 2) * max(t, u)": [abs(1.0 - 2) * max(1.0, 2.0), abs(3.0 - 2) * max(3.0, 2.0)], "min(t, u) + float(int(t))": [min(1.0, 2.0) + 1.0, min(3.0, 2.0) + 3.0]}
    early = {e: build({"value": e}) for e in probes}
    first = {e: vals(c) for e, c in early.items()}
    custom = ExpressionEvaluator({"round": lambda x, nd=0: 42.0, "abs": lambda x: -7.0, "max": min, "float": lambda x: 0.0, "spare": lambda x: x})
    try:
        custom.compile("round(t) + spare(t)", {"t"})(t=1.0)
    except Exception:
        pass
    for e in probes:
        late = build({"value": e})
        n += 2
        for when, got in (("built before", vals(early[e])), ("built after", vals(late))):
            if got != python_vals[e] or got != first[e]:
                viols.append(Violation("value-depends-on-foreign-evaluator", f"{e!r} ({when} a custom evaluator overriding round/abs/max/float was created) yields {got}; "
                                       f"its meaning is {python_vals[e]} (first evaluation: {first[e]})", {"kind": "built", "a": e, "b": when}))
    return n, viols


def published_slice() -> Tuple[int, List[Violation]]:
    """The signature a run PUBLISHES for a sweep node (canonical spec in pipeline_start, provenance in the node's SER) is the signature of
    that node's own expression - also when several sweeps of one kind sit in one pipeline (BUILT_PAIRS: expressions that must differ)."""
    import os

    from mc import cli, harness
    from semantiva.pipeline import Pipeline
    from semantiva.trace.drivers.jsonl import JsonlTraceDriver

    harness.quiet()
    scratch = harness.enter_scratch()
    viols: List[Violation] = []
    n = 0

    def sw(proc, par, e, extra=None):
        nd = {"processor": proc, "derive": {"parameter_sweep": {"parameters": {par: e}, "variables": {"t": {"values": [1.0, 2.0]}, "u": {"values": [3.0]}},
                                                                 "collection": "FloatDataCollection"}}}
        nd.update(extra or {})
        if extra:
            del nd["derive"]["parameter_sweep"]["collection"]  # probe sweeps publish a list under their context key
        return nd

    for a, b in BUILT_PAIRS:
        nodes = [sw("VSrc", "value", a), {"processor": "VSum"}, sw("VMul", "factor", a), {"processor": "VSum"}, sw("VMul", "factor", b), {"processor": "VSum"},
                 sw("VFactorProbe", "factor", b, {"context_key": "k1"}), sw("VFactorProbe", "factor", a, {"context_key": "k2"})]
        own = {0: a, 2: a, 4: b, 6: b, 7: a}
        try:
            cfg = harness.load_config({"extensions": ["verif_lib"], "pipeline": {"nodes": nodes}})
            harness.clear_dir(scratch)
            tp = os.path.join(scratch, "t.ser.jsonl")
            pipe = Pipeline(cfg.nodes, trace=JsonlTraceDriver(tp, detail="hash"))
            harness.run_pipeline(pipe, None, {}, None)
            recs, _ = cli.collect_trace(tp)
        except Exception:
            continue  # an expression the sweep path does not take (e.g. abs of a collection): not this property's business
        n += 1
        start = next((r for r in recs if r.get("record_type") == "pipeline_start"), None)
        sers = [r for r in recs if r.get("record_type") == "ser"]
        if start is None:
            continue
        spec_nodes = start.get("pipeline_spec_canonical", {}).get("nodes", [])
        for i, e in own.items():
            want = impl_sig(e)
            got_spec = (((spec_nodes[i].get("preprocessor_metadata") or {}).get("param_expressions") or {}) if i < len(spec_nodes) else {})
            got_spec = next(iter(got_spec.values()), {}).get("sig", {}).get("ast") if got_spec else None
            uuid = spec_nodes[i].get("node_uuid") if i < len(spec_nodes) else None
            ser = next((r for r in sers if (r.get("identity") or {}).get("node_id") == uuid), None)
            prov = (((ser or {}).get("processor") or {}).get("preprocessing_provenance") or {}).get("param_expressions") or {}
            got_ser = next(iter(prov.values()), {}).get("sig", {}).get("ast") if prov else None
            for where, got in (("pipeline_start canonical spec", got_spec), ("SER provenance", got_ser)):
                if got is not None and got != want:
                    viols.append(Violation("published-signature-is-not-the-node's-own", f"node {i} sweeps {e!r}: {where} publishes {got[:120]}, the expression's signature is {want[:120]}",
                                           {"kind": "published", "a": a, "b": b}))
                    break
    if n == 0:
        raise AssertionError("published_slice is vacuous: no pipeline with two sweeps of one kind could be traced")
    return n, viols


def check(tier: str, seed: int) -> Result:
    stats = {"families": {}, "evaluations": 0, "nontrivial": 0, "samples": []}
    viols: List[Violation] = []
    full = Alphabet(["x", "y", "z"], [0, 1, 2], ["+", "-", "*", "//", "%", "**", "==", "!=", "<", "<=", ">", ">="],
                    ["min", "max"], ["-", "abs"], True, GRID)
    mid = Alphabet(["x", "y"], [1, 2], ["+", "-", "*", "//", "**", "<"], ["min"], ["-"], True, GRID)
    arith = Alphabet(["x", "y"], [2], ["+", "-", "*"], [], ["-"], False, GRID)
    ac_only = Alphabet(["x", "y", "z"], [2], ["+", "*"], [], ["-"], False, (-2, -1, 0, 1, 2, 3))
    run_family("full<=2", full, 2, stats, viols)
    if tier == "quick":
        run_family("mid<=3(reduced)", Alphabet(["x", "y"], [2], ["+", "-", "*", "//", "**"], [], ["-"], True, GRID), 3, stats, viols)
        run_family("arith<=3", arith, 3, stats, viols)
        run_family("ac<=4(no unary)", Alphabet(["x", "y", "z"], [2], ["+", "*"], [], [], False, GRID), 4, stats, viols)
        run_chains([2, 3], stats, viols)
    else:
        run_family("mid<=3", mid, 3, stats, viols)
        run_family("arith<=4", arith, 4, stats, viols)
        run_family("ac<=4", ac_only, 4, stats, viols)
        run_family("ac<=5(no unary)", Alphabet(["x", "y", "z"], [2], ["+", "*"], [], [], False, GRID), 5, stats, viols)
        run_chains([2, 3, 4], stats, viols)
    nb, vb = built_slice()
    viols.extend(vb)
    npub, vpub = published_slice()
    viols.extend(vpub)
    nb += npub
    nlc, vlc = long_chains()
    viols.extend(vlc)
    stats["long_chain_forms"] = nlc
    stats["evaluations"] += nb + nlc
    stats["built_sweep_classes_checked"] = nb
    cov = {
        "evaluations": stats["evaluations"],
        "distinct_nontrivial": stats["nontrivial"],
        "rule": "every expression tree of the stated alphabets up to the stated leaf count is generated bottom-up "
                "(exhaustive), plus every permutation x bracketing of every k-subset of a 16-term operand pool under + and * "
                "and every single-point mutant of each; non-trivial = signature groups with more than one member "
                "(a collision the oracle has to justify) plus operand multisets whose rearrangements were compared",
        "families": stats["families"],
        "chains": stats.get("chains"),
        "samples": stats["samples"],
        "exhaustive": True,
    }
    return Result("exploration", cov, viols, [
        "exact arithmetic: values are Fractions on the complete grid {-2..3}^vars; powers with |exponent|>16 or |base|>64 "
        "are treated as unknown (BIG) at that grid point",
        "polynomial fragment (+ - * unary-, ** by constant 0..6) decided by exact normal form, not by the grid",
        "numeric expressions only (string / tuple concatenation is outside the property)",
    ])


def replay(case) -> List[Violation]:
    if case.get("kind") == "published":
        return [v for v in published_slice()[1] if v.case["a"] == case["a"] and v.case["b"] == case["b"]]
    if case.get("kind") == "built":
        return [v for v in built_slice()[1] if v.case["a"] == case["a"] and v.case["b"] == case["b"]]
    a, b = case["a"], case["b"]
    sa, sb = impl_sig(a), impl_sig(b)
    vars_ = tuple(case.get("vars") or ("x", "y", "z"))

    def parse(t):
        return _from_ast(ast.parse(t, mode="eval").body)

    if case["kind"] == "long-same-sig":
        return [Violation("unsound-signature", "a chain and the same chain with another last operand share one signature", case)] if sa == sb else []
    if case["kind"] == "pair-ac":
        if sa != sb:
            return [Violation("ac-rearrangement-changes-signature", f"{a!r} vs {b!r}", case)]
        return []
    va, vb = sem_vec(parse(a), vars_, GRID), sem_vec(parse(b), vars_, GRID)
    if sa == sb and not vec_compatible(va, vb):
        return [Violation("unsound-signature", f"{a!r} vs {b!r}", case)]
    return []


_AST_BIN = {ast.Add: "+", ast.Sub: "-", ast.Mult: "*", ast.FloorDiv: "//", ast.Mod: "%", ast.Pow: "**"}
_AST_CMP = {ast.Eq: "==", ast.NotEq: "!=", ast.Lt: "<", ast.LtE: "<=", ast.Gt: ">", ast.GtE: ">="}


def _from_ast(n):
    if isinstance(n, ast.Name):
        return ("v", n.id)
    if isinstance(n, ast.Constant):
        return ("c", n.value)
    if isinstance(n, ast.UnaryOp):
        return ("u", "-", _from_ast(n.operand))
    if isinstance(n, ast.BinOp):
        return ("b", _AST_BIN[type(n.op)], _from_ast(n.left), _from_ast(n.right))
    if isinstance(n, ast.Compare):
        return ("b", _AST_CMP[type(n.ops[0])], _from_ast(n.left), _from_ast(n.comparators[0]))
    if isinstance(n, ast.Call):
        return ("f", n.func.id) + tuple(_from_ast(a) for a in n.args)
    if isinstance(n, ast.IfExp):
        return ("if", _from_ast(n.test), _from_ast(n.body), _from_ast(n.orelse))
    raise ValueError(ast.dump(n))



# ---------------------------------------------------------------------------------------------
# environment grid (mc/envgrid.py): the signature of an expression is the same string in every process (it is hashed into the semantic
# ids), and the agreement / disagreement of signatures does not depend on the process either

def env_cases(tier: str):
    out = []
    pool = CHAIN_POOL[: (8 if tier == "quick" else len(CHAIN_POOL))]
    for op in ("+", "*"):
        for k in (2, 3, 4):
            for start in range(0, len(pool) - k + 1, 2):
                ops = pool[start:start + k]
                forms = [txt(b) for b in list(bracketings(list(ops), op))[:3]] + [txt(b) for b in list(bracketings(list(reversed(ops)), op))[:2]]
                out.append({"forms": forms, "different": [txt(("b", "-", ops[0], ops[1])), txt(("b", "-", ops[1], ops[0]))]})
    for a, b in BUILT_PAIRS:
        out.append({"forms": [a], "different": [a, b]})
    return out


def env_observe(case):
    sigs = [impl_sig(f) for f in case["forms"]]
    diff = [impl_sig(f) for f in case["different"]]
    return {"signatures": sigs, "commuted_forms_agree": len(set(sigs)) == 1, "non_commutative_swap_differs": len(set(diff)) == len(diff), "different": diff}
