"""Shared runner pieces: violations, results, known findings, evidence, parallel map."""
from __future__ import annotations

import dataclasses
import hashlib
import json
import multiprocessing as mp
import os
import sys
import time
from typing import Any, Callable, Iterable, List, Optional, Sequence

VERIF = os.path.dirname(os.path.dirname(os.path.abspath(__file__)))
REPO = os.environ.get("VERIF_REPO", "/repo")
EVIDENCE_DIR = os.environ.get("VERIF_EVIDENCE_DIR") or os.path.join(VERIF, "evidence")
REPLAY_DIR = os.environ.get("VERIF_REPLAY_DIR") or os.path.join(VERIF, "replays")
KNOWN_FINDINGS = os.path.join(VERIF, "known_findings.json")
NPROC = int(os.environ.get("VERIF_JOBS", "0") or 0) or min(16, os.cpu_count() or 1)


@dataclasses.dataclass
class Violation:
    """One counterexample.

    sig:  stable abstract signature (failure class + roles) used for known-findings matching
    msg:  human readable explanation
    case: JSON-serialisable minimal case; re-runnable through the property's replay()
    """

    sig: str
    msg: str
    case: Any

    def to_json(self) -> dict:
        return {"sig": self.sig, "msg": self.msg, "case": self.case}


@dataclasses.dataclass
class Result:
    level: str
    coverage: dict
    violations: List[Violation] = dataclasses.field(default_factory=list)
    assumptions: List[str] = dataclasses.field(default_factory=list)


def jsonable(o: Any) -> Any:
    try:
        json.dumps(o, sort_keys=True)
        return o
    except (TypeError, ValueError, OverflowError):
        if isinstance(o, dict):
            return {str(k): jsonable(v) for k, v in o.items()}
        if isinstance(o, (list, tuple, set, frozenset)):
            return [jsonable(v) for v in o]
        return repr(o)


def same(a: Any, b: Any) -> bool:
    """Structural equality for observations: NaN equals NaN, tuples and lists of equal items are equal item by item, values
    whose == raises or is not a bool (numpy arrays, tripwire objects) are compared by repr."""
    if a is b:
        return True
    if isinstance(a, float) and isinstance(b, float) and a != a and b != b:
        return True
    if isinstance(a, dict) and isinstance(b, dict):
        return set(map(repr, a)) == set(map(repr, b)) and len(a) == len(b) and all(k in b and same(v, b[k]) for k, v in a.items())
    if isinstance(a, (list, tuple)) and isinstance(b, (list, tuple)):
        return type(a) is type(b) and len(a) == len(b) and all(same(x, y) for x, y in zip(a, b))
    try:
        return bool(a == b)
    except Exception:
        return repr(a) == repr(b)


def sha(o: Any) -> str:
    return hashlib.sha256(
        json.dumps(jsonable(o), sort_keys=True, default=repr).encode()
    ).hexdigest()[:16]


def load_known() -> dict:
    if not os.path.exists(KNOWN_FINDINGS):
        return {"findings": [], "fixed": []}
    with open(KNOWN_FINDINGS) as f:
        return json.load(f)


def _validate_evidence(doc: dict) -> None:
    try:
        import jsonschema  # type: ignore

        schema_path = "/root/.vp/EVIDENCE.schema.json"
        if not os.path.exists(schema_path):
            schema_path = os.path.join(VERIF, "mc", "EVIDENCE.schema.json")
        with open(schema_path) as f:
            schema = json.load(f)
        jsonschema.validate(doc, schema)
    except ImportError:  # pragma: no cover
        pass


def write_evidence(prop: str, tier: str, seed: int, res: Result, wall: float, nviol: int) -> str:
    os.makedirs(EVIDENCE_DIR, exist_ok=True)
    doc = {
        "property_id": prop,
        "tier": tier,
        "seed": seed,
        "level": res.level,
        "coverage": jsonable(res.coverage),
        "assumptions": list(res.assumptions),
        "wall_s": round(wall, 3),
        "violations": nviol,
    }
    _validate_evidence(doc)
    path = os.path.join(EVIDENCE_DIR, f"{prop}.json")
    tmp = path + ".tmp"
    with open(tmp, "w") as f:
        json.dump(doc, f, indent=1, sort_keys=True)
        f.write("\n")
    os.replace(tmp, path)
    return path


def write_replay(prop: str, v: Violation) -> str:
    d = os.path.join(REPLAY_DIR, prop)
    os.makedirs(d, exist_ok=True)
    doc = {"property": prop, **v.to_json()}
    path = os.path.join(d, sha(doc) + ".json")
    with open(path, "w") as f:
        json.dump(jsonable(doc), f, indent=1, sort_keys=True, default=repr)
        f.write("\n")
    return path


def report(prop: str, tier: str, seed: int, res: Result, wall: float) -> int:
    """Print KNOWN-FINDING / VIOLATION lines, write evidence, return exit code."""
    known = load_known()
    listed = {
        f["signature"]: f for f in known.get("findings", []) if f.get("property") == prop
    }
    seen_known: dict = {}
    fresh: dict = {}
    for v in res.violations:
        tgt = seen_known if v.sig in listed else fresh
        old = tgt.get(v.sig)
        if old is None or len(json.dumps(jsonable(v.case), default=repr)) < len(json.dumps(jsonable(old.case), default=repr)):
            tgt[v.sig] = v
    for sig, v in sorted(seen_known.items()):
        print(f"KNOWN-FINDING: property={prop} {listed[sig].get('what', sig)} [sig={sig}]")
    res.coverage.setdefault("known_findings_seen", sorted(seen_known))
    write_evidence(prop, tier, seed, res, wall, len(fresh))
    for sig, v in sorted(fresh.items()):
        path = write_replay(prop, v)
        print(f"  violation sig={sig}: {v.msg}"[:2000])
        print(f"VIOLATION property={prop} replay={path}")
    cov = res.coverage
    brief = {
        k: cov[k]
        for k in (
            "evaluations",
            "distinct_nontrivial",
            "states",
            "transitions",
            "traces_validated_against_impl",
            "distinct_outcomes",
            "exhaustive",
            "cap_hit",
        )
        if k in cov
    }
    print(f"[{prop}] tier={tier} seed={seed} wall={wall:.1f}s {json.dumps(brief)} "
          f"violations={len(fresh)} known={len(seen_known)}")
    return 1 if fresh else 0


# --------------------------------------------------------------------------------------
# Parallel map over an index space, fork-based, long-lived workers.

_WORKER_FN: Optional[Callable] = None


def _stack_dump_on_usr1():
    """kill -USR1 <pid> prints every thread's Python stack to stderr (diagnosing a slow or stuck exploration)."""
    try:
        import faulthandler
        import signal

        faulthandler.register(signal.SIGUSR1, all_threads=True)
    except Exception:
        pass


def _init_worker(fn):  # pragma: no cover - runs in child
    global _WORKER_FN
    _WORKER_FN = fn
    _stack_dump_on_usr1()


def _call(chunk):  # pragma: no cover - runs in child
    assert _WORKER_FN is not None
    return _WORKER_FN(chunk)


def pmap_chunks(fn: Callable[[Sequence[Any]], Any], items: Sequence[Any], chunk: int = 64,
                jobs: Optional[int] = None, maxtasks: Optional[int] = None) -> Iterable[Any]:
    """Apply fn(list_of_items) to chunks in a forked pool; yields fn results (unordered)."""
    jobs = jobs or NPROC
    chunks = [items[i : i + chunk] for i in range(0, len(items), chunk)]
    if jobs <= 1 or len(chunks) <= 1:
        for c in chunks:
            yield fn(c)
        return
    # concurrent.futures, not multiprocessing.Pool: when a worker process dies (killed, SystemExit / KeyboardInterrupt
    # escaping a task, os._exit) a Pool waits for its result for ever; an executor raises BrokenProcessPool, which ends the check
    # as a harness error instead of a hang.  maxtasks (bounding what a long-lived worker accumulates) = executor generations.
    import concurrent.futures as cf

    ctx = mp.get_context("fork")
    gen_size = len(chunks) if not maxtasks else jobs * maxtasks
    for g in range(0, len(chunks), gen_size):
        with cf.ProcessPoolExecutor(jobs, mp_context=ctx, initializer=_init_worker, initargs=(fn,)) as ex:
            futs = [ex.submit(_call, c) for c in chunks[g : g + gen_size]]
            for f in cf.as_completed(futs):
                yield f.result()


def pmap_dynamic(fn: Callable[[Any], Any], items: Sequence[Any], jobs: Optional[int] = None) -> Iterable[Any]:
    """Like pmap_chunks(chunk=1), but a task may hand back further items (work splitting for searches whose subtrees are very uneven):
    fn(item) -> (result, [more items]); yields the results (unordered) until no item is left."""
    jobs = jobs or NPROC
    if jobs <= 1:
        todo = list(items)
        while todo:
            res, more = fn(todo.pop())
            todo.extend(more)
            yield res
        return
    import concurrent.futures as cf

    ctx = mp.get_context("fork")
    with cf.ProcessPoolExecutor(jobs, mp_context=ctx, initializer=_init_worker, initargs=(fn,)) as ex:
        import queue

        doneq: "queue.Queue" = queue.Queue()
        outstanding = 0
        for it in items:
            ex.submit(_call, it).add_done_callback(doneq.put)
            outstanding += 1
        while outstanding:
            f = doneq.get()
            outstanding -= 1
            res, more = f.result()
            for it in more:
                ex.submit(_call, it).add_done_callback(doneq.put)
                outstanding += 1
            yield res


class Clock:
    def __init__(self):
        self.t0 = time.time()

    def elapsed(self) -> float:
        return time.time() - self.t0


def seeded_order(items: List[Any], seed: int) -> List[Any]:
    """Deterministic permutation of exploration order (never changes the explored set)."""
    if not seed:
        return list(items)
    import random

    r = random.Random(seed)
    out = list(items)
    r.shuffle(out)
    return out


def eprint(*a):
    print(*a, file=sys.stderr, flush=True)
