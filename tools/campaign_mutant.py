#!/usr/bin/env python3
"""tools/campaign_mutant.py <file> <line> <before> <after> <name>  — keep one syntactic mutant of the campaign as mutants/<name>.diff"""
import difflib
import os
import sys

rel, line, before, after, name = sys.argv[1:6]
src = open(os.path.join("/repo", rel)).read().split("\n")
i = int(line) - 1
assert before in src[i], (src[i], before)
new = list(src)
new[i] = src[i].replace(before, after, 1)
diff = difflib.unified_diff([l + "\n" for l in src], [l + "\n" for l in new], f"a/{rel}", f"b/{rel}", n=3)
out = os.path.join(os.path.dirname(os.path.dirname(os.path.abspath(__file__))), "mutants", name + ".diff")
open(out, "w").write("".join(diff))
print(out)
