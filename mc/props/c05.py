"""C05 — identities discriminate: a change of meaning changes semantic ID and config ID.

Every single-point semantic mutation (one operator per identity-bearing field, at every applicable position)
of every configuration must change the semantic ID, the config ID and the affected node's UUID or node
semantic ID; inside every pipeline all node UUIDs are pairwise distinct.
"""
from __future__ import annotations

import ast
import copy
import json
from typing import Any, Dict, Iterator, List, Optional, Tuple

from mc import core, harness, idconfigs, yamlrw
from mc.core import Result, Violation
from mc.props.c12 import GRID, _from_ast, sem_vec, vec_compatible

OTHER_PROC = {"VMul": "VMulDef", "VMulDef": "VMul", "VAdd": "VMul", "VTwo": "VMul", "VSrc": "VSrcDef", "VSrcDef": "VSrc", "VSrc2": "VSrc",
              "VSink": "VPaySink", "VPaySink": "VSink", "VTxtSink": "VSink", "VProbe": "VGainProbe", "VGainProbe": "VProbe", "VSum": "VNested",
              "VCtxWrite": "VNested", "VNested": "VCtxWrite", "VFailIf": "VNested", "VPaySrc": "VSrcDef", "VTwoProbe": "VFactorProbe"}
STRING_PROC = {"rename:r:factor": "rename:r:a", "rename:factor:a": "rename:factor:b", "delete:factor": "delete:a", "delete:a": "delete:factor",
               'template:"v_{r}":a': 'template:"w_{r}":a', 'template:"o_{a}{b}.txt":path': 'template:"o_{b}{a}.txt":path',
               "slice:VMul:FloatDataCollection": "slice:VMulDef:FloatDataCollection", "slice:VMulDef:FloatDataCollection": "slice:VMul:FloatDataCollection",
               "slice:VProbe:FloatDataCollection": "slice:VGainProbe:FloatDataCollection"}


def ids(raw: dict) -> dict:
    from semantiva.configurations.load_pipeline_from_yaml import parse_pipeline_config
    from semantiva.inspection import build_inspection_payload

    parse_pipeline_config(raw)
    pl = build_inspection_payload(raw)
    return {"semantic_id": pl["identity"]["semantic_id"], "config_id": pl["identity"]["config_id"],
            "nodes": [(n["uuid"], n["node_semantic_id"]) for n in pl["pipeline_spec_canonical"]["nodes"]]}


_VEC_MEMO: Dict[Tuple[str, Tuple[str, ...]], str] = {}


def _vec_of(text: str, tree: ast.AST, vars_: Tuple[str, ...]) -> str:
    key = (text, vars_)
    if key not in _VEC_MEMO:
        if len(_VEC_MEMO) > 4000:
            _VEC_MEMO.clear()
        _VEC_MEMO[key] = sem_vec(_from_ast(tree), vars_, GRID)
    return _VEC_MEMO[key]


def expr_semantically_equal(a: str, b: str) -> bool:
    """Equal on the complete grid over the variables that occur in either expression (the others cannot matter)."""
    try:
        pa, pb = ast.parse(a, mode="eval").body, ast.parse(b, mode="eval").body
        used = {n.id for t in (pa, pb) for n in ast.walk(t) if isinstance(n, ast.Name)}
        vars_ = tuple(v for v in ("t", "u", "v") if v in used) or ("t",)
        return vec_compatible(_vec_of(a, pa, vars_), _vec_of(b, pb, vars_))
    except Exception:
        return False


def expr_mutants(e: str) -> List[Tuple[str, str]]:
    """(operator label, mutated expression) — constant, variable, operator, function, operand swap of non-commutative ops."""
    tree = ast.parse(e, mode="eval")
    out: List[Tuple[str, str]] = []
    nodes = list(ast.walk(tree))
    for i, n in enumerate(nodes):
        t = copy.deepcopy(tree)
        m = list(ast.walk(t))[i]
        label = None
        if isinstance(m, ast.Constant) and isinstance(m.value, (int, float)) and not isinstance(m.value, bool):
            m.value = m.value + 1
            label = "constant"
        elif isinstance(m, ast.Name) and m.id in ("t", "u", "v"):
            m.id = {"t": "u", "u": "t", "v": "t"}[m.id]
            label = "variable"
        elif isinstance(m, ast.Name) and m.id in ("max", "min", "abs", "float"):
            m.id = {"max": "min", "min": "max", "abs": "float", "float": "abs"}[m.id]
            label = "function"
        elif isinstance(m, ast.BinOp):
            if isinstance(m.op, (ast.Sub, ast.Div, ast.FloorDiv, ast.Mod, ast.Pow)):
                m.left, m.right = m.right, m.left
                label = "operand-swap"
            else:
                m.op = ast.Sub() if isinstance(m.op, ast.Add) else ast.Add()
                label = "operator"
        elif isinstance(m, ast.Compare):
            m.ops = [ast.GtE() if isinstance(m.ops[0], ast.Lt) else ast.Lt()]
            label = "operator"
        elif isinstance(m, ast.IfExp):
            m.body, m.orelse = m.orelse, m.body
            label = "operand-swap"
        if label:
            try:
                out.append((label, ast.unparse(t)))
            except Exception:
                pass
        if isinstance(n, ast.BinOp) and not isinstance(n.op, (ast.Add, ast.Mult)):
            t2 = copy.deepcopy(tree)
            m2 = list(ast.walk(t2))[i]
            m2.op = ast.Add()
            out.append(("operator", ast.unparse(t2)))
    return out


def mutations(cfg: dict) -> Iterator[Tuple[str, dict, List[int]]]:
    """(operator label, mutated config, affected node indices)"""
    nodes = cfg["pipeline"]["nodes"]
    base = ("pipeline", "nodes")
    for i, node in enumerate(nodes):
        p = base + (i,)
        proc = node["processor"]
        derive = (node.get("derive") or {}).get("parameter_sweep")
        if derive is None:
            alt = OTHER_PROC.get(proc) or STRING_PROC.get(proc)
            if alt:
                yield ("processor", yamlrw.set_(cfg, p + ("processor",), alt), [i])
        # parameter values at any depth
        params = node.get("parameters")
        if isinstance(params, dict):
            for path, v in yamlrw.walk(params, p + ("parameters",)):
                if path == p + ("parameters",):
                    continue
                for mv in yamlrw.scalar_mutants(v) if not isinstance(v, (dict, list)) else []:
                    yield ("param-leaf", yamlrw.set_(cfg, path, mv), [i])
                for mv in yamlrw.type_mutants(v) if not isinstance(v, (dict, list)) else []:
                    yield ("param-leaf-type", yamlrw.set_(cfg, path, mv), [i])
                for mv in yamlrw.ulp_mutants(v) if not isinstance(v, (dict, list)) else []:
                    yield ("param-leaf-ulp", yamlrw.set_(cfg, path, mv), [i])
                if isinstance(v, dict):
                    yield ("param-add-key", yamlrw.set_(cfg, path + ("zz_new",), 1), [i])
                    for k in v:
                        yield ("param-remove-key", yamlrw.delete(cfg, path + (k,)), [i])
                if isinstance(v, list):
                    yield ("param-list-append", yamlrw.set_(cfg, path, list(v) + [99]), [i])
                    if len(v) > 1:
                        yield ("param-list-swap", yamlrw.set_(cfg, path, [v[1], v[0]] + list(v[2:])), [i])
        if derive is not None:
            dp = p + ("derive", "parameter_sweep")
            alt = {"VSrc": "VSrcDef", "VSrc2": "VSrc", "VTwo": "VMul", "VTwoProbe": "VFactorProbe"}.get(proc)
            if alt and set(derive["parameters"]) <= {"value", "factor"}:
                yield ("sweep-wrapped-processor", yamlrw.set_(cfg, p + ("processor",), alt), [i])
            for name, e in derive["parameters"].items():
                for label, me in expr_mutants(e):
                    if not expr_semantically_equal(e, me):
                        yield (f"sweep-expression-{label}", yamlrw.set_(cfg, dp + ("parameters", name), me), [i])
            for var, spec in derive["variables"].items():
                vp = dp + ("variables", var)
                if isinstance(spec, list) or "values" in spec:
                    vals = spec if isinstance(spec, list) else spec["values"]
                    valp = vp if isinstance(spec, list) else vp + ("values",)
                    for j in range(len(vals)):
                        nv = list(vals)
                        if isinstance(nv[j], dict):  # a mapping-valued element: change one leaf / add a key
                            for lbl, mv in (("leaf", {**nv[j], sorted(nv[j])[0]: "changed"}), ("added-key", {**nv[j], "zzz": 0})):
                                nv2 = list(vals)
                                nv2[j] = mv
                                yield (f"sweep-sequence-mapping-element-{lbl}[{j}/{len(vals)}]", yamlrw.set_(cfg, valp, nv2), [i])
                            continue
                        nv[j] = nv[j] + 0.5
                        yield (f"sweep-sequence-element[{j}/{len(vals)}]", yamlrw.set_(cfg, valp, nv), [i])
                        for tv in yamlrw.ulp_mutants(vals[j]):
                            nv = list(vals)
                            nv[j] = tv
                            yield (f"sweep-sequence-element-ulp[{j}/{len(vals)}]", yamlrw.set_(cfg, valp, nv), [i])
                        for tv in yamlrw.type_mutants(vals[j]):
                            nv = list(vals)
                            nv[j] = tv
                            yield (f"sweep-sequence-element-type[{j}/{len(vals)}]", yamlrw.set_(cfg, valp, nv), [i])
                    allt = [yamlrw.type_mutants(x)[0] if yamlrw.type_mutants(x) else x for x in vals]
                    if allt != list(vals) or any(type(a) is not type(b) for a, b in zip(allt, vals)):
                        yield ("sweep-sequence-all-types", yamlrw.set_(cfg, valp, allt), [i])
                    yield ("sweep-sequence-append", yamlrw.set_(cfg, valp, list(vals) + [vals[-1]]), [i])
                    if len(vals) > 1 and vals[0] != vals[1]:
                        yield ("sweep-sequence-swap", yamlrw.set_(cfg, valp, [vals[1], vals[0]] + list(vals[2:])), [i])
                elif "from_context" in spec:
                    yield ("sweep-from-context-key", yamlrw.set_(cfg, vp + ("from_context",), spec["from_context"] + "2"), [i])
                else:
                    yield ("sweep-range-lo", yamlrw.set_(cfg, vp + ("lo",), spec["lo"] + 0.25), [i])
                    yield ("sweep-range-hi", yamlrw.set_(cfg, vp + ("hi",), spec["hi"] + 0.25), [i])
                    yield ("sweep-range-steps", yamlrw.set_(cfg, vp + ("steps",), spec["steps"] + 1), [i])
                    yield ("sweep-range-scale", yamlrw.set_(cfg, vp + ("scale",), "log" if spec.get("scale", "linear") == "linear" else "linear"), [i])
                    yield ("sweep-range-endpoint", yamlrw.set_(cfg, vp + ("endpoint",), not spec.get("endpoint", True)), [i])
            yield ("sweep-mode", yamlrw.set_(cfg, dp + ("mode",), "by_position" if derive.get("mode", "combinatorial") == "combinatorial" else "combinatorial"), [i])
            yield ("sweep-broadcast", yamlrw.set_(cfg, dp + ("broadcast",), not derive.get("broadcast", False)), [i])
            if "collection" in derive:
                yield ("sweep-collection", yamlrw.set_(cfg, dp + ("collection",), "VColl2"), [i])
    # number / order of nodes
    for i in range(len(nodes)):
        if len(nodes) > 1:
            c = copy.deepcopy(cfg)
            del c["pipeline"]["nodes"][i]
            yield ("delete-node", c, [])
        c = copy.deepcopy(cfg)
        c["pipeline"]["nodes"].insert(i, copy.deepcopy(nodes[i]))
        yield ("duplicate-node", c, [])
    for i in range(len(nodes) - 1):
        if json.dumps(nodes[i], sort_keys=True) != json.dumps(nodes[i + 1], sort_keys=True):
            c = copy.deepcopy(cfg)
            c["pipeline"]["nodes"][i], c["pipeline"]["nodes"][i + 1] = c["pipeline"]["nodes"][i + 1], c["pipeline"]["nodes"][i]
            yield ("swap-nodes", c, [i, i + 1])


def _worker(chunk):
    harness.quiet()
    harness.enter_scratch()
    out = {"n": 0, "viol": [], "ops": {}, "skipped": 0}
    for ci, cfg in chunk:
        base = ids(copy.deepcopy(cfg))
        uu = [u for u, _ in base["nodes"]]
        if len(set(uu)) != len(uu):
            out["viol"].append(("duplicate-node-uuid", f"config #{ci}: node UUIDs {uu}", {"kind": "uuid", "config": cfg}))
        for label, mut, affected in mutations(cfg):
            try:
                got = ids(copy.deepcopy(mut))
            except Exception:
                out["skipped"] += 1
                continue
            out["n"] += 1
            op = label.split("[")[0]
            out["ops"][op] = out["ops"].get(op, 0) + 1
            uu2 = [u for u, _ in got["nodes"]]
            if len(set(uu2)) != len(uu2):
                out["viol"].append(("duplicate-node-uuid", f"config #{ci} after {label}: node UUIDs {uu2}", {"kind": "uuid", "config": mut}))
            problems = []
            if got["semantic_id"] == base["semantic_id"]:
                problems.append("semantic-id-unchanged")
            if got["config_id"] == base["config_id"]:
                problems.append("config-id-unchanged")
            if affected and len(got["nodes"]) == len(base["nodes"]) and label not in ("swap-nodes",):
                if all(got["nodes"][i] == base["nodes"][i] for i in affected):
                    problems.append("node-identity-unchanged")
            for pr in problems:
                fam = "sweep" if label.startswith("sweep-") else "plain"
                out["viol"].append((f"{pr}|{op}", f"config #{ci}: mutation {label} leaves {pr.replace('-unchanged', '')} unchanged ({got['semantic_id'] if 'semantic' in pr else got['config_id']})",
                                    {"kind": "mutation", "config": cfg, "mutant": mut, "label": label, "affected": affected}))
        from mc.props.c01 import _housekeeping

        _housekeeping()
    return out


def _path_ids(path: str) -> dict:
    """Identities through the entry points that take a FILE PATH."""
    from semantiva.configurations.load_pipeline_from_yaml import load_pipeline_from_yaml
    from semantiva.pipeline.graph_builder import build_graph, compute_pipeline_id

    g = build_graph(path)
    cfg = load_pipeline_from_yaml(path)
    return {"graph_node_uuids": [n["node_uuid"] for n in g["nodes"]], "graph_pipeline_id": compute_pipeline_id(g),
            "loaded_nodes": json.dumps(cfg.nodes, sort_keys=True, default=repr)}


def _file_history_worker(chunk):
    """A configuration file edited IN PLACE: the mutant is written over the original at the same path, padded to the same size, and the
    file's mtime is put back (what a coarse-grained file-system clock, `cp -p` or an archive extraction leave behind).  What the
    path-taking entry points say about the file afterwards must be what they say about a fresh file with the mutant's content."""
    import os

    import yaml

    harness.quiet()
    d = harness.enter_scratch()
    out = {"n": 0, "viol": []}
    for ci, cfg in chunk:
        muts = list(mutations(cfg))
        step = max(1, len(muts) // 10)
        p = os.path.join(d, f"edited_{ci}.yaml")
        for k, (label, mut, affected) in enumerate(muts[::step]):
            a, b = yaml.safe_dump(cfg, sort_keys=False), yaml.safe_dump(mut, sort_keys=False)
            size = max(len(a.encode()), len(b.encode())) + 8
            pad = lambda t: t + "#" + " " * (size - len(t.encode()) - 2) + "\n"  # noqa: E731 - a trailing comment: cosmetic
            try:
                with open(p, "w") as f:
                    f.write(pad(a))
                os.utime(p, (1.7e9, 1.7e9))
                first = _path_ids(p)
                with open(p, "w") as f:
                    f.write(pad(b))
                os.utime(p, (1.7e9, 1.7e9))
                edited = _path_ids(p)
                q = os.path.join(d, f"fresh_{ci}_{k}.yaml")
                with open(q, "w") as f:
                    f.write(pad(b))
                fresh = _path_ids(q)
                os.unlink(q)
            except Exception:
                continue  # a mutant the loader refuses: not an identity question
            out["n"] += 1
            for key in fresh:
                if edited[key] != fresh[key]:
                    stale = "the ORIGINAL's" if edited[key] == first[key] else "neither file's"
                    out["viol"].append((f"edited-file-keeps-old-identity|{key}", f"config #{ci}: after {label} was written over the file (same size, same mtime) "
                                        f"{key} is {stale} value, not the one a fresh file with that content gets",
                                        {"kind": "file-history", "config": cfg, "ci": ci}))
                    break
    return out


def check(tier: str, seed: int) -> Result:
    configs = idconfigs.base_configs(tier)
    jobs = core.seeded_order(list(enumerate(configs)), seed)
    n = skipped = 0
    ops: Dict[str, int] = {}
    viols: List[Violation] = []
    for o in core.pmap_chunks(_worker, jobs, chunk=1, maxtasks=8):
        n += o["n"]
        skipped += o["skipped"]
        for k, v in o["ops"].items():
            ops[k] = ops.get(k, 0) + v
        for sig, msg, case in o["viol"]:
            viols.append(Violation(sig, msg, case))
    n_hist = 0
    hjobs = list(enumerate(configs)) if tier == "quick" or len(configs) <= 60 else list(enumerate(configs))[:: len(configs) // 60]
    for o in core.pmap_chunks(_file_history_worker, hjobs, chunk=2, maxtasks=8):
        n_hist += o["n"]
        for sig, msg, case in o["viol"]:
            viols.append(Violation(sig, msg, case))
    cov = {
        "evaluations": n + n_hist, "files_edited_in_place": n_hist, "distinct_nontrivial": len(ops),
        "rule": "%d configurations x every single-point semantic mutation at every applicable position: processor of a node, parameter leaf / "
                "added / removed key / list element at any depth, delete / duplicate / swap nodes; for sweeps: wrapped processor, expression "
                "(constant, variable, operator, function, swapped operands of - / // %% ** and if-else arms; mutants that evaluate equal on the "
                "grid are discarded), variable domain (lo, hi, steps, scale, endpoint, every element of every sequence incl. the middle of a "
                "9-element one, from_context key), mode, broadcast, collection. distinct_nontrivial = mutation operators exercised" % len(configs),
        "mutants_per_operator": ops, "mutants_that_do_not_load": skipped,
        "samples": [{"config": configs[12]}], "exhaustive": True,
    }
    return Result("exploration", cov, viols, [
        "context_key is not in the property's list of identity-bearing fields and is not mutated",
        "expression mutants are compared with the original by exhaustive evaluation on the integer grid {-2..3}^3 (exact arithmetic)",
    ])


def replay(case) -> List[Violation]:
    harness.quiet()
    if case["kind"] == "file-history":
        o = _file_history_worker([(case.get("ci", 0), case["config"])])
        return [Violation(s, m, c) for s, m, c in o["viol"]]
    if case["kind"] == "uuid":
        uu = [u for u, _ in ids(copy.deepcopy(case["config"]))["nodes"]]
        return [Violation("duplicate-node-uuid", str(uu), case)] if len(set(uu)) != len(uu) else []
    o = _worker([(0, case["config"])])
    return [Violation(s, m, c) for s, m, c in o["viol"] if c.get("label") == case.get("label")]


# ---------------------------------------------------------------------------------------------
# environment grid (mc/envgrid.py): which mutations change which identities does not depend on the process

def env_cases(tier: str):
    from mc import envgrid

    # (not the configurations with 30-term expressions: judging their expression mutants on the value grid costs 15 s per process)
    cfgs = [c for c in idconfigs.base_configs("quick") if len(json.dumps(c)) < 1200]
    return [{"ci": i, "config": c} for i, c in enumerate(envgrid.pick(cfgs, 8 if tier == "quick" else 24))]


def env_observe(case):
    from mc import envgrid

    envgrid.scratch()
    o = _worker([(case["ci"], case["config"])])
    base = ids(copy.deepcopy(case["config"]))
    return {"judged": sorted({v[0] for v in o["viol"]}), "mutants": o["n"], "skipped": o["skipped"], "ids": base}
