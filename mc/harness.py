"""Shared helpers to drive the implementation: build pipelines from YAML text, run them, observe."""
from __future__ import annotations

import logging
import os
import shutil
import tempfile
from typing import Any, Dict, List, Optional, Sequence, Tuple

import yaml

_SCRATCH: List[Optional[str]] = [None]


def quiet():
    logging.disable(logging.CRITICAL)


def scratch_dir() -> str:
    """Per-process scratch directory (cwd of the worker), removed at exit."""
    if _SCRATCH[0] is None or not os.path.isdir(_SCRATCH[0]) or _SCRATCH_PID[0] != os.getpid():
        d = tempfile.mkdtemp(prefix="verif_scratch_")
        _SCRATCH[0] = d
        _SCRATCH_PID[0] = os.getpid()
        import atexit

        atexit.register(shutil.rmtree, d, True)
    return _SCRATCH[0]


_SCRATCH_PID: List[int] = [0]


def enter_scratch() -> str:
    d = scratch_dir()
    os.chdir(d)
    return d


def clear_dir(d: str) -> None:
    for name in os.listdir(d):
        p = os.path.join(d, name)
        if os.path.isdir(p):
            shutil.rmtree(p, ignore_errors=True)
        else:
            os.unlink(p)


def load_config(cfg: dict):
    """Round-trip through YAML text and the real loader."""
    from semantiva.configurations.load_pipeline_from_yaml import parse_pipeline_config

    text = yaml.safe_dump(cfg, sort_keys=False)
    return parse_pipeline_config(yaml.safe_load(text))


def canon_data(d: Any):
    from semantiva.data_types import NoDataType
    from semantiva.examples.test_utils import FloatDataCollection, FloatDataType

    if d is None or isinstance(d, NoDataType):
        return ("N",)
    if isinstance(d, FloatDataType):
        return ("F", d.data)
    if isinstance(d, FloatDataCollection):
        return ("C", [x.data for x in d.data])
    return ("?", repr(d))


def canon_ctx(d: Dict[str, Any]) -> Dict[str, Any]:
    """Context values that are data objects (a probe may return one) are shown like data: ("F", value)."""
    from semantiva.examples.test_utils import FloatDataCollection, FloatDataType

    return {k: (canon_data(v) if isinstance(v, (FloatDataType, FloatDataCollection)) else v) for k, v in d.items()}


def reset_log():
    from verif_lib import components

    del components.LOG[:]
    components.THE_ERROR.__traceback__ = None
    components.EMPTY_ERROR.__traceback__ = None
    return components.LOG


def read_files(d: str) -> List[Tuple[str, str]]:
    out = []
    for name in sorted(os.listdir(d)):
        p = os.path.join(d, name)
        if os.path.isfile(p) and not name.endswith(".jsonl"):
            with open(p) as f:
                for line in f.read().splitlines():
                    out.append((name, line))
    return out


class RealOutcome:
    def __init__(self):
        self.status = "ok"
        self.data = None
        self.ctx: Dict[str, Any] = {}
        self.error: Optional[str] = None
        self.exc: Optional[BaseException] = None
        self.index: Optional[int] = None
        self.log: List[Tuple[str, dict]] = []
        self.files: List[Tuple[str, str]] = []
        self.raw = None


def run_pipeline(pipeline, data, ctx: Dict[str, Any], scratch: Optional[str] = None) -> RealOutcome:
    """Run Pipeline.process(Payload(data, ContextType(ctx))) and observe everything the property mentions."""
    return _run_pipeline_on(pipeline, data, dict(ctx), scratch)


def _run_pipeline_on(pipeline, data, caller_ctx, scratch: Optional[str] = None) -> RealOutcome:
    from semantiva.context_processors import ContextType
    from semantiva.pipeline import Payload

    out = RealOutcome()
    log = reset_log()
    if scratch:
        clear_dir(scratch)
    # remember what the orchestrator held before this run (its nodes may be reused or rebuilt — not our business)
    before_nodes = pipeline.orchestrator.last_nodes
    before_ids = [id(n) for n in before_nodes]
    before_counts = {id(n): n.stop_watch._start_count for n in before_nodes}
    try:
        res = pipeline.process(Payload(data, ContextType(caller_ctx)))
        out.raw = res
        out.data = canon_data(res.data)
        out.ctx = canon_ctx(res.context.to_dict())
    except BaseException as exc:  # noqa: BLE001 - KeyboardInterrupt is part of the alphabet
        out.exc = exc
        out.error = type(exc).__name__
        nodes = pipeline.orchestrator.last_nodes
        started = sum(1 for n in nodes if n.stop_watch._start_count > before_counts.get(id(n), 0))
        rebuilt = [id(n) for n in nodes] != before_ids
        if started == 0 and not rebuilt:
            out.status = "construct"  # no node object was (re)built or started: the failure precedes execution
        elif started == 0:
            out.status = "fail"
            out.index = -1
        else:
            out.status = "fail"
            out.index = started - 1
        out.ctx = canon_ctx(dict(caller_ctx))  # the run mutates the caller's mapping in place
    out.log = list(log)
    if scratch:
        out.files = read_files(scratch)
    return out


# ---- per-node observation of the real run (no reference involved) -----------------------------------------------
class RecDict(dict):
    """The caller's context mapping, recording every mutation together with the node during which it happened."""

    def __init__(self, *a, **k):
        super().__init__(*a, **k)
        self.events: List[tuple] = []  # (node index or None, "set" | "del", key)
        self.cur: List[Optional[int]] = [None]

    def __setitem__(self, k, v):
        self.events.append((self.cur[0], "set", k))
        super().__setitem__(k, v)

    def __delitem__(self, k):
        self.events.append((self.cur[0], "del", k))
        super().__delitem__(k)

    def pop(self, k, *d):
        if k in self:
            self.events.append((self.cur[0], "del", k))
        return super().pop(k, *d)

    def popitem(self):
        k, v = super().popitem()
        self.events.append((self.cur[0], "del", k))
        return k, v

    def update(self, *a, **kw):
        for k in dict(*a, **kw):
            self.events.append((self.cur[0], "set", k))
        super().update(*a, **kw)

    def setdefault(self, k, d=None):
        if k not in self:
            self.events.append((self.cur[0], "set", k))
        return super().setdefault(k, d)

    def clear(self):
        for k in list(self):
            self.events.append((self.cur[0], "del", k))
        super().clear()

    def __ior__(self, other):
        self.update(other)
        return self


def run_observed(pipeline, data, ctx: Dict[str, Any], scratch: Optional[str] = None):
    """run_pipeline + what each node really did to the context: returns (RealOutcome, per-node list of
    {"set": keys assigned during the node and present when it returned, "del": keys removed during it and absent when it returned,
     "post": the context when the node returned}, events outside any node).  Observation is on the caller's own mapping
    (ContextType wraps it without copying) and on node entry / exit of _PayloadProcessor.process; the reference model is not consulted."""
    from semantiva.pipeline import Pipeline
    from semantiva.pipeline import payload_processors as pp

    rec = RecDict(ctx)
    per_node: List[dict] = []
    orig = pp._PayloadProcessor.process

    def process(self, payload=None):
        if isinstance(self, Pipeline) or rec.cur[0] is not None:
            return orig(self, payload)
        idx = len(per_node)
        per_node.append({"set": set(), "del": set(), "post": None, "returned": False})
        rec.cur[0] = idx
        try:
            res = orig(self, payload)
            per_node[idx]["returned"] = True
            return res
        finally:
            rec.cur[0] = None
            ev = [(op, k) for (i, op, k) in rec.events if i == idx]
            per_node[idx]["set"] = {k for op, k in ev if op == "set" and k in rec}
            per_node[idx]["del"] = {k for op, k in ev if op == "del" and k not in rec}
            per_node[idx]["post"] = dict(rec)

    pp._PayloadProcessor.process = process
    try:
        out = _run_pipeline_on(pipeline, data, rec, scratch)
    finally:
        pp._PayloadProcessor.process = orig
    outside = [(op, k) for (i, op, k) in rec.events if i is None]
    return out, per_node, outside
