"""C13 — trace aggregation is order-independent and right for every partial trace.

(a) every prefix of every real trace (crash at any line): verdict == documented verdict of the record set;
(b) explicit-state search over the subset lattice of each trace's records with the real
    TraceAggregator.ingest as transition function: every incoming edge of a subset must give the
    same canonical state (diamond property => every permutation / interleaving agrees), finalising
    is idempotent and finalising in between does not change later verdicts.
"""
from __future__ import annotations

import copy
import dataclasses
import itertools
import json
from typing import Any, Dict, List, Optional, Sequence, Tuple

from mc import core, gen, harness, traces
from mc.core import Result, Violation


def canon_state(agg) -> str:
    """Canonical form of what the property observes: all run / launch verdicts, sorted."""
    runs, launches = agg.finalize_all()
    rs = sorted((dataclasses.asdict(r) for r in runs), key=lambda d: d["run_id"])
    ls = sorted((dataclasses.asdict(l) for l in launches), key=lambda d: (d["run_space_launch_id"], d["run_space_attempt"]))
    # (the lists inside a verdict are compared as emitted: a list whose order follows the ingestion order is an order-dependent verdict)
    return json.dumps({"runs": rs, "launches": ls}, sort_keys=True, default=repr)


# ---- reference verdict on a *set* of records (documented rules) -----------------------------------

def ref_verdict(records: Sequence[dict]) -> dict:
    runs: Dict[str, dict] = {}
    launches: Dict[Tuple[str, int], dict] = {}

    def run(rid):
        return runs.setdefault(rid, {"start": False, "end": False, "nodes": set(), "spec": None, "launch": None})

    def launch(key):
        return launches.setdefault(key, {"start": False, "end": False, "runs": set(), "planned": None})

    for r in records:
        t = r.get("record_type")
        if t == "pipeline_start":
            x = run(r["run_id"])
            x["start"] = True
            x["spec"] = r.get("pipeline_spec_canonical")
            if r.get("run_space_launch_id") is not None and r.get("run_space_attempt") is not None:
                key = (r["run_space_launch_id"], int(r["run_space_attempt"]))
                launch(key)["runs"].add(r["run_id"])
        elif t == "pipeline_end":
            run(r["run_id"])["end"] = True
        elif t == "ser":
            run(r["identity"]["run_id"])["nodes"].add(r["identity"]["node_id"])
        elif t == "run_space_start":
            l = launch((r["run_space_launch_id"], int(r["run_space_attempt"])))
            l["start"] = True
            l["planned"] = r.get("run_space_planned_run_count")
        elif t == "run_space_end":
            launch((r["run_space_launch_id"], int(r["run_space_attempt"])))["end"] = True
    out_runs = {}
    for rid, x in runs.items():
        expected = [n["node_uuid"] for n in (x["spec"] or {}).get("nodes", [])] if x["spec"] else []
        problems = []
        if not x["start"]:
            problems.append("missing_pipeline_start")
        if not x["end"]:
            problems.append("missing_pipeline_end")
        status = "complete" if (x["start"] and x["end"]) else "partial"
        out_runs[rid] = {
            "status": status, "problems": sorted(problems),
            "missing_nodes": sorted(set(expected) - x["nodes"]) if expected else [],
            "orphan_nodes": [],
        }
    out_l = {}
    for key, l in launches.items():
        counts = {"complete": 0, "partial": 0, "invalid": 0}
        for rid in l["runs"]:
            counts[out_runs[rid]["status"]] += 1
        problems = []
        if not l["start"]:
            problems.append("missing_run_space_start")
        if not l["end"]:
            problems.append("missing_run_space_end")
        if l["start"] and l["end"] and not counts["partial"] and not counts["invalid"]:
            status = "complete"
        else:
            status = "partial"
        out_l[f"{key[0]}#{key[1]}"] = {"status": status, "problems": sorted(problems), "runs_total": len(l["runs"]),
                                        "runs_by_status": counts, "planned_run_count": l["planned"]}
    return {"runs": out_runs, "launches": out_l}


def impl_verdict(records: Sequence[dict]) -> dict:
    from semantiva.trace.aggregation.aggregator import TraceAggregator

    agg = TraceAggregator()
    agg.ingest_many(copy.deepcopy(list(records)))
    runs, launches = agg.finalize_all()
    out_runs = {r.run_id: {"status": r.status, "problems": sorted(r.problems), "missing_nodes": sorted(r.missing_nodes),
                           "orphan_nodes": sorted(r.orphan_nodes)} for r in runs}
    out_l = {f"{l.run_space_launch_id}#{l.run_space_attempt}": {
        "status": l.status, "problems": sorted(l.problems), "runs_total": l.summary.get("runs_total"),
        "runs_by_status": l.summary.get("runs_by_status"), "planned_run_count": l.summary.get("planned_run_count")} for l in launches}
    return {"runs": out_runs, "launches": out_l}


def set_facts(v: dict) -> dict:
    """The part of a verdict the documentation defines for ANY set of records (not only prefixes of a trace): the problems named, the
    missing nodes, the launch roll-up; the status of a run that has at least one lifecycle edge (complete iff both) and of a launch
    whose start was seen (complete iff also its end was seen and every attached run is complete)."""
    runs = {rid: {"problems": r["problems"], "missing_nodes": r["missing_nodes"],
                  "status": r["status"] if len([p for p in r["problems"] if p.startswith("missing_pipeline_")]) < 2 else None}
            for rid, r in v["runs"].items()}
    launches = {k: {"problems": l["problems"], "runs_total": l["runs_total"], "runs_by_status": l["runs_by_status"], "planned_run_count": l["planned_run_count"],
                    "status": l["status"] if "missing_run_space_start" not in l["problems"] else None} for k, l in v["launches"].items()}
    return {"runs": runs, "launches": launches}


def _ref_with_impl_statuses(members: List[dict], agg) -> dict:
    """Reference verdict of a record set; where the documentation leaves a run's status open (no lifecycle edge at all) the roll-up is
    computed from the status the aggregator itself gives that run - the roll-up must equal the counts of its runs' verdicts."""
    ref = ref_verdict(members)
    impl = impl_verdict_of(agg)
    for rid, r in ref["runs"].items():
        if len([p for p in r["problems"] if p.startswith("missing_pipeline_")]) == 2 and rid in impl["runs"]:
            r["status"] = impl["runs"][rid]["status"]
    for key, l in ref["launches"].items():
        counts = {"complete": 0, "partial": 0, "invalid": 0}
        for r in members:
            pass
        # recount with the (possibly adopted) run statuses
        runs_of = {r["run_id"] for r in members if r.get("record_type") == "pipeline_start" and r.get("run_space_launch_id") is not None
                   and f"{r['run_space_launch_id']}#{int(r['run_space_attempt'])}" == key}
        for rid in runs_of:
            counts[ref["runs"][rid]["status"]] += 1
        l["runs_by_status"] = counts
        if "missing_run_space_start" not in l["problems"]:
            l["status"] = "complete" if ("missing_run_space_end" not in l["problems"] and not counts["partial"] and not counts["invalid"]) else "partial"
    return ref


def impl_verdict_of(agg) -> dict:
    a = copy.deepcopy(agg)
    runs, launches = a.finalize_all()
    out_runs = {r.run_id: {"status": r.status, "problems": sorted(p for p in r.problems), "missing_nodes": sorted(r.missing_nodes),
                           "orphan_nodes": sorted(r.orphan_nodes)} for r in runs}
    out_l = {f"{l.run_space_launch_id}#{l.run_space_attempt}": {
        "status": l.status, "problems": sorted(l.problems), "runs_total": l.summary.get("runs_total"),
        "runs_by_status": l.summary.get("runs_by_status"), "planned_run_count": l.summary.get("planned_run_count")} for l in launches}
    return {"runs": out_runs, "launches": out_l}


# ---- (b) subset lattice ------------------------------------------------------------------------------

def lattice_search(records: List[dict], pick: Optional[List[int]] = None):
    """BFS by subset size over records[pick]; returns (states, transitions, violations)."""
    from semantiva.trace.aggregation.aggregator import TraceAggregator

    idx = pick if pick is not None else list(range(len(records)))
    n = len(idx)
    level: Dict[int, Any] = {0: TraceAggregator()}  # bitmask -> representative aggregator
    canon: Dict[int, str] = {0: canon_state(copy.deepcopy(level[0]))}
    states, transitions = 1, 0
    viols: List[Tuple[str, str, dict]] = []
    for size in range(1, n + 1):
        nxt: Dict[int, Any] = {}
        for mask, agg in level.items():
            for j in range(n):
                bit = 1 << j
                if mask & bit:
                    # the same record once more (a file ingested twice, a line duplicated): the SET of records is unchanged
                    d = copy.deepcopy(agg)
                    d.ingest(copy.deepcopy(records[idx[j]]))
                    transitions += 1
                    if canon_state(d) != canon[mask]:
                        viols.append(("duplicate-record-changes-verdict", f"ingesting record {idx[j]} a second time changes the verdict of the same record set",
                                      {"subset": _members(mask, idx), "last": idx[j], "kind": "lattice-dup"}))
                    continue
                m2 = mask | bit
                rec = copy.deepcopy(records[idx[j]])
                a = copy.deepcopy(agg)
                a.ingest(rec)
                transitions += 1
                # finalising must be idempotent and must not disturb the verdict
                c1 = canon_state(a)
                c2 = canon_state(a)
                if c1 != c2:
                    viols.append(("finalize-not-idempotent", "finalize_all() twice gives different verdicts",
                                  {"order": _order(mask, j, idx), "kind": "lattice"}))
                # finalise-in-between variant: predecessor finalised before the ingest
                b = copy.deepcopy(agg)
                b.finalize_all()
                b.ingest(copy.deepcopy(records[idx[j]]))
                transitions += 1
                c3 = canon_state(b)
                if c3 != c1:
                    viols.append(("finalize-in-between-changes-verdict",
                                  f"finalising before ingesting record {idx[j]} changes the later verdict",
                                  {"subset": _members(m2, idx), "last": idx[j], "kind": "lattice"}))
                if m2 in canon:
                    if canon[m2] != c1:
                        viols.append(("order-dependent-verdict",
                                      f"the same record set gives different verdicts depending on ingestion order (last ingested: record {idx[j]})",
                                      {"subset": _members(m2, idx), "last": idx[j], "kind": "lattice"}))
                else:
                    canon[m2] = c1
                    nxt[m2] = a
                    states += 1
                    # the verdict of this SET of records, as far as the documentation defines it for arbitrary sets
                    members = [records[i] for i in _members(m2, idx)]
                    got, exp = set_facts(impl_verdict_of(a)), set_facts(_ref_with_impl_statuses(members, a))
                    if got != exp and not any(v[0] == "wrong-verdict-for-record-set" for v in viols):
                        viols.append(("wrong-verdict-for-record-set", f"records {_members(m2, idx)}: aggregator says {got}, the documented rules give {exp}",
                                      {"subset": _members(m2, idx), "last": idx[j], "kind": "lattice-set"}))
        level = nxt
    return states, transitions, viols, len(set(canon.values()))


def _members(mask: int, idx: List[int]) -> List[int]:
    return [idx[j] for j in range(len(idx)) if mask >> j & 1]


def _order(mask, j, idx):
    return _members(mask, idx) + [idx[j]]


def pick_records(records: List[dict], limit: int) -> List[List[int]]:
    """All records when few; otherwise lifecycle records + every choice of SERs filling up to `limit`."""
    n = len(records)
    if n <= limit:
        return [list(range(n))]
    life = [i for i, r in enumerate(records) if r.get("record_type") != "ser"]
    sers = [i for i, r in enumerate(records) if r.get("record_type") == "ser"]
    room = max(0, limit - len(life))
    if len(life) > limit:
        life = life[:limit]
        room = 0
    picks = []
    k = min(room, len(sers))
    if len(sers) <= 14:
        combos = list(itertools.combinations(sers, k))[:6]
    else:  # long traces: six evenly spread selections instead of materialising C(n, k) combinations
        step = max(1, len(sers) // max(1, k))
        combos = [tuple((sers[off::step] + sers)[:k]) for off in range(6)]
    for c in combos:
        picks.append(sorted(set(life + list(c))))
    return picks


def make_traces(tier: str) -> List[Tuple[str, List[dict]]]:
    harness.quiet()
    out: List[Tuple[str, List[dict]]] = []
    singles = traces.SINGLE_CASES if tier == "thorough" else traces.SINGLE_CASES[:6]
    for prog, dk, ctx in singles:
        for mode in (("file", "dir") if tier == "thorough" else ("file",)):
            recs, files, real, _, _ = traces.traced_single(prog, dk, ctx, mode=mode)
            if recs:
                out.append((f"single:{'+'.join(prog)}:{mode}:{real.status}", recs))
    # beyond the small scope: a 61-node pipeline (every prefix leaves up to 61 nodes without a SER) and a 33-node one failing at node 4
    for prog in gen.LONG_PROGS[:1] + gen.LONG_PROGS[2:3]:
        recs, files, real, _, _ = traces.traced_single(prog, "none", {}, mode="file")
        if recs:
            out.append((f"single-long{len(prog)}:{real.status}", recs))
    launches = traces.LAUNCH_CASES if tier == "thorough" else traces.LAUNCH_CASES[:2]
    for prog, rs in launches:
        for mode in ("dir", "file"):
            recs, files, res = traces.traced_launch(prog, rs, mode=mode)
            if recs:
                out.append((f"launch:{'+'.join(prog)}:{mode}:exit{res.code}", recs))
    # the same launch (one idempotency key / one explicit launch id and attempt) performed a second time in this process: what the
    # runtime emits for the repetition is a trace like any other
    prog0, rs0 = traces.LAUNCH_CASES[0]
    for mode, extra in (("dir", ["--run-space-idempotency-key", "k-repeat"]), ("file", ["--run-space-launch-id", "L-repeat", "--run-space-attempt", "2"])):
        traces.traced_launch(prog0, rs0, mode=mode, extra_args=extra)
        recs, files, res = traces.traced_launch(prog0, rs0, mode=mode, extra_args=extra)
        if recs:
            out.append((f"launch-repeated:{'+'.join(prog0)}:{mode}:exit{res.code}", recs))
    # k-way interleavings of independent traces in ONE aggregator (per-run files read round-robin; two launches; a launch and a
    # stand-alone run): every run / launch keeps the verdict it has alone
    def rr(*seqs):
        seqs = [list(s_) for s_ in seqs]
        merged = []
        while any(seqs):
            for s_ in seqs:
                if s_:
                    merged.append(s_.pop(0))
        return merged

    launches_ = [t for t in out if t[0].startswith("launch:")]
    singles_ = [t for t in out if t[0].startswith("single:")]
    if len(launches_) >= 2 and len(singles_) >= 2:
        out.append(("interleaved:launch+launch", rr(launches_[0][1], launches_[-1][1])))
        out.append(("interleaved:launch+single+single", rr(launches_[0][1], singles_[0][1], singles_[-1][1])))
        out.append(("interleaved:single-reversed+single", rr(list(reversed(singles_[1][1])), singles_[2 % len(singles_)][1])))
    return out


def _job(arg):
    name, recs, limit = arg
    out = {"name": name, "n": len(recs), "prefixes": 0, "states": 0, "transitions": 0, "viol": [], "verdicts": 0}
    # (a) every prefix
    for k in range(len(recs) + 1):
        pre = recs[:k]
        out["prefixes"] += 1
        exp, got = ref_verdict(pre), impl_verdict(pre)
        if exp != got:
            out["viol"].append(("wrong-prefix-verdict", f"{name}: prefix of {k} records: aggregator {got} != documented {exp}",
                                {"kind": "prefix", "trace": name, "records": pre}))
            break
    # (a') a run / launch that went through (exit 0 / returned) is judged complete on its full trace: ties the verdict rules to what
    # the producer really emits
    if (name.startswith("launch") and name.endswith(":exit0")) or (name.startswith("single:") and name.endswith(":ok")):
        full = impl_verdict(recs)
        notc = {k: v["status"] for part in ("runs", "launches") for k, v in full[part].items() if v["status"] != "complete"}
        if notc or (name.startswith("launch") and not full["launches"]):
            out["viol"].append(("completed-execution-judged-incomplete", f"{name}: the execution went through, yet its full trace is judged {notc or 'to hold no launch'} "
                                f"(record types {[r.get('record_type') for r in recs][:12]})", {"kind": "prefix", "trace": name, "records": recs}))
    # (b) subset lattice
    for pick in pick_records(recs, limit):
        s, t, v, distinct = lattice_search(recs, pick)
        out["states"] += s
        out["transitions"] += t
        out["verdicts"] += distinct
        for sig, msg, case in v[:3]:
            case = dict(case)
            case["trace"] = name
            case["records"] = [recs[i] for i in pick]
            case["pick"] = list(range(len(pick)))
            out["viol"].append((sig, f"{name}: {msg}", case))
    return out


def _worker(chunk):
    return [_job(a) for a in chunk]


def check(tier: str, seed: int) -> Result:
    limit = 9 if tier == "quick" else 12
    trs = make_traces(tier)
    jobs = [(name, recs, limit) for name, recs in trs]
    viols: List[Violation] = []
    tot = {"prefixes": 0, "states": 0, "transitions": 0, "verdicts": 0}
    samples = []
    for part in core.pmap_chunks(_worker, jobs, chunk=1):
        for o in part:
            for k in tot:
                tot[k] += o[k]
            for sig, msg, case in o["viol"]:
                viols.append(Violation(sig, msg, case))
            if len(samples) < 6:
                samples.append({"trace": o["name"], "records": o["n"], "lattice_states": o["states"], "transitions": o["transitions"]})
    cov = {
        "states": tot["states"], "transitions": tot["transitions"],
        "traces_validated_against_impl": len(trs), "prefixes_checked": tot["prefixes"],
        "evaluations": tot["prefixes"] + tot["transitions"], "distinct_nontrivial": tot["verdicts"],
        "rule": "real traces emitted by the runtime (single runs succeeding / failing at each node, launches incl. a failing run, file and "
                "directory mode); every prefix judged against the documented verdict of the record set; every subset of <= %d records "
                "(all records, or lifecycle records + chosen SERs for longer traces) reached through every ingest order of its last element, "
                "with and without finalising in between. distinct_nontrivial = distinct canonical verdict states seen in the lattices" % limit,
        "samples": samples, "exhaustive": True,
    }
    return Result("model_checking", cov, viols, [
        "diamond property on the subset lattice implies order independence for all permutations and file interleavings of the same records",
        "the documented verdict for arbitrary subsets that no crash can produce (SERs without any lifecycle edge) is not demanded; only order independence is",
    ])


def replay(case) -> List[Violation]:
    if case["kind"] == "prefix":
        exp, got = ref_verdict(case["records"]), impl_verdict(case["records"])
        return [Violation("wrong-prefix-verdict", f"{got} != {exp}", case)] if exp != got else []
    s, t, v, _ = lattice_search(case["records"], case.get("pick"))
    return [Violation(sig, msg, case) for sig, msg, _ in v[:1]]


# ---------------------------------------------------------------------------------------------
# environment grid (mc/envgrid.py): the verdict on a set of records depends on the records only, not on the process that aggregates them
# (its clock, time zone, hash seed ...).  The records are produced once, in the parent, and shipped to every environment.

def env_cases(tier: str):
    out = []
    for name, recs in make_traces("quick"):
        if len(recs) > 40:
            continue
        for k in sorted({0, 1, 2, len(recs) // 2, len(recs) - 1, len(recs)}):
            if 0 <= k <= len(recs):
                out.append({"trace": name, "k": k, "records": recs[:k]})
        out.append({"trace": name, "k": "reversed", "records": list(reversed(recs))})
    return out


def env_observe(case):
    exp, got = ref_verdict(case["records"]), impl_verdict(case["records"])
    return {"verdict": got, "documented": exp == got}
