"""Reference safe-expression grammar for C11.

The whitelist is written out here literally (copied from the documented list, never imported from
semantiva.utils.safe_eval), so widening the implementation's whitelist is a detectable change.
The predicate walks EVERY child position of the tree.
"""
from __future__ import annotations

import ast
from typing import Iterable, Optional, Set

ALLOWED_EXPR = {
    ast.BinOp, ast.UnaryOp, ast.BoolOp, ast.Compare, ast.IfExp, ast.Call, ast.Name, ast.Constant, ast.Tuple,
}
ALLOWED_OPS = {
    ast.Add, ast.Sub, ast.Mult, ast.Div, ast.FloorDiv, ast.Mod, ast.Pow,  # binary
    ast.USub, ast.UAdd,  # unary
    ast.And, ast.Or,  # boolean
    ast.Eq, ast.NotEq, ast.Lt, ast.LtE, ast.Gt, ast.GtE,  # comparisons
}
ALLOWED_FUNCS = {"abs", "min", "max", "round", "float", "int", "str", "bool"}


def why_unsafe(tree: ast.AST, names: Set[str]) -> Optional[str]:
    """Return None when the tree is inside the safe grammar, else a reason."""
    root = tree.body if isinstance(tree, ast.Expression) else tree

    def walk(n: ast.AST, is_func_pos: bool = False) -> Optional[str]:
        t = type(n)
        if isinstance(n, ast.expr):
            if t not in ALLOWED_EXPR:
                return f"node class {t.__name__}"
            if isinstance(n, ast.Name):
                if not isinstance(n.ctx, ast.Load):
                    return "name not in load context"
                if is_func_pos:
                    return None if n.id in ALLOWED_FUNCS else f"call of non-whitelisted function {n.id}"
                return None if n.id in names else f"undeclared name {n.id}"
            if isinstance(n, ast.Tuple) and not isinstance(n.ctx, ast.Load):
                return "tuple not in load context"
            if isinstance(n, ast.Call):
                if not isinstance(n.func, ast.Name):
                    return "call through a non-name"
                r = walk(n.func, True)
                if r:
                    return r
                for a in n.args:
                    r = walk(a)
                    if r:
                        return r
                for kw in n.keywords:
                    r = walk(kw.value)  # keyword wrapper is transparent; its value must be safe
                    if r:
                        return r
                return None
            for child in ast.iter_child_nodes(n):
                r = walk(child)
                if r:
                    return r
            return None
        if isinstance(n, (ast.operator, ast.unaryop, ast.boolop, ast.cmpop)):
            return None if t in ALLOWED_OPS else f"operator {t.__name__}"
        if isinstance(n, ast.expr_context):
            return None if t is ast.Load else f"context {t.__name__}"
        return f"non-expression node {t.__name__}"

    return walk(root)


def code_names_ok(code, names: Set[str]) -> Optional[str]:
    extra = set(code.co_names) - names - ALLOWED_FUNCS
    if extra:
        return f"code object references names {sorted(extra)}"
    for c in code.co_consts:
        if hasattr(c, "co_code"):
            return "nested code object (lambda / comprehension)"
    return None
