#!/bin/sh
# tools/seed_batch.sh <worktree-prefix> <suffix> <ID> [check ids...]   e.g. tools/seed_batch.sh /tmp/wt2_ b C07 C07 C10
# copies <prefix><ID>/_seed into seeded/<ID>_<suffix>, confirms it, and runs the named checks (default: <ID>) against it.
PFX="$1"; SUF="$2"; ID="$3"; shift 3
CHECKS="${*:-$ID}"
cd "$(dirname "$0")/.."
D="seeded/${ID}_${SUF}"
mkdir -p "$D"
cp "$PFX$ID/_seed/patch.diff" "$PFX$ID/_seed/demo.py" "$PFX$ID/_seed/notes.md" "$D/" || exit 2
echo "##### $ID ($D)"
tools/seed_confirm.sh "$D" 2>&1 | grep -v "^\.\.\." | tr '\n' ' '; echo
for c in $CHECKS; do
  echo "== $D vs $c"
  tools/with_mutant.sh "$D/patch.diff" "$c" 2>&1 | grep -E "violation sig|^\[$c\]|harness error|Error" | cut -c1-330 | head -4
done
