"""In-process / subprocess driver for `semantiva` CLI, and trace capture helpers."""
from __future__ import annotations

import contextlib
import glob
import io
import json
import os
import subprocess
import sys
from typing import Any, Dict, List, Optional, Sequence, Tuple

import yaml


class CliResult:
    def __init__(self, code: int, out: str, err: str):
        self.code, self.out, self.err = code, out, err

    def __repr__(self):
        return f"CliResult(code={self.code}, out={self.out[-300:]!r}, err={self.err[-300:]!r})"


def run_cli(argv: Sequence[str]) -> CliResult:
    """semantiva.cli.main(argv) in-process; SystemExit caught; stdout/stderr captured."""
    from semantiva import cli

    out, err = io.StringIO(), io.StringIO()
    code = 0
    with contextlib.redirect_stdout(out), contextlib.redirect_stderr(err):
        try:
            cli.main(list(argv))
        except SystemExit as e:
            code = e.code if isinstance(e.code, int) else (0 if e.code is None else 1)
        except KeyboardInterrupt:
            code = 130
        except Exception as e:  # what the interpreter does with an exception that escapes main(): traceback on stderr, exit status 1
            import traceback

            err.write("Traceback (most recent call last):\n" + "".join(traceback.format_tb(e.__traceback__)[-3:]) + f"{type(e).__name__}: {e}\n")
            code = 1
    # The CLI leaves its trace driver to be closed by interpreter shutdown; collecting here plays the
    # role of process exit for the in-process driver (file objects are flushed when finalised).
    import gc

    try:
        from verif_lib import components

        components.THE_ERROR.__traceback__ = None  # the singleton error must not keep the CLI's frames alive
        components.EMPTY_ERROR.__traceback__ = None
    except Exception:
        pass
    gc.collect()
    return CliResult(code, out.getvalue(), err.getvalue())


def run_cli_subprocess(argv: Sequence[str], cwd: str, env_extra: Optional[dict] = None, timeout: int = 120) -> CliResult:
    env = dict(os.environ)
    env.update(env_extra or {})
    p = subprocess.run([sys.executable, "-m", "semantiva.cli", *argv], cwd=cwd, env=env, capture_output=True, text=True, timeout=timeout)
    return CliResult(p.returncode, p.stdout, p.stderr)


def write_yaml(path: str, cfg: dict) -> str:
    with open(path, "w") as f:
        yaml.safe_dump(cfg, f, sort_keys=False)
    return path


def read_jsonl(path: str) -> List[dict]:
    out = []
    with open(path) as f:
        for line in f:
            line = line.rstrip("\n")
            if line:
                out.append(json.loads(line))
    return out


def collect_trace(trace_path: str) -> Tuple[List[dict], Dict[str, List[dict]]]:
    """Return (records in emission order, per-file records).

    Single-file mode: file order is emission order.  Directory mode: the runtime is strictly
    sequential (run_space_start, then run 0..n-1 each into its own file, then run_space_end), so
    emission order is reconstructed from the per-process `seq` counter where present and from
    (run_space_index, in-file position) for SER records that carry no seq.
    """
    files: Dict[str, List[dict]] = {}
    if os.path.isdir(trace_path):
        for p in sorted(glob.glob(os.path.join(trace_path, "*.jsonl"))):
            files[os.path.basename(p)] = read_jsonl(p)
    elif os.path.exists(trace_path):
        files[os.path.basename(trace_path)] = read_jsonl(trace_path)
    if len(files) <= 1:
        return (next(iter(files.values())) if files else []), files
    runspace = [recs for name, recs in files.items() if "runspace-" in name]
    runs = [recs for name, recs in files.items() if "runspace-" not in name]

    def run_key(recs):
        ps = [r for r in recs if r.get("record_type") == "pipeline_start"]
        return ps[0].get("seq", 0) if ps else 0

    runs.sort(key=run_key)
    order: List[dict] = []
    rs = [r for recs in runspace for r in recs]
    order.extend(r for r in rs if r.get("record_type") == "run_space_start")
    for recs in runs:
        order.extend(recs)
    order.extend(r for r in rs if r.get("record_type") == "run_space_end")
    return order, files
