"""C14 — the in-memory transport delivers every message exactly once, in channel order.

Stateless, preemption-bounded exploration (mc.sched) of real threads running the real
InMemorySemantivaTransport, with a scheduling point at every source line of in_memory.py
(including the defaultdict factory lambda) and at every lock acquisition.
"""
from __future__ import annotations

import collections
import fnmatch
import json
import os
import types
from typing import Any, Dict, List, Optional, Tuple

from mc import core, sched
from mc.core import Result, Violation

_CUR: List[Optional[sched.Scheduler]] = [None]


def _install_shim():
    import threading as real

    from semantiva.execution.transport import in_memory

    class SchedThread:
        """threading.Thread as the transport uses it for callback subscriptions: the runner becomes one more scheduled thread."""

        def __init__(self, target=None, daemon=None, **kw):
            self.target = target

        def start(self):
            s = _CUR[0]
            if s is None:
                real.Thread(target=self.target, daemon=True).start()
                return
            s.spawn(100 + sum(1 for t in s.state if t >= 100), self.target)

    shim = types.SimpleNamespace(
        Lock=lambda: sched.CoopLock(lambda: _CUR[0]),
        Thread=SchedThread,
        RLock=real.RLock,
        Event=real.Event,
    )
    in_memory.threading = shim
    return in_memory


# ---- harnesses: name -> (pre-published messages, publisher scripts, subscriber patterns, drain patterns)
HARNESSES: Dict[str, dict] = {
    "H1-two-publishers-new-channel": {
        "pre": [], "pubs": [[("c.1", 0), ("c.1", 1)], [("c.1", 0)]], "subs": [], "drain": ["c.1", "c.*"]},
    "H2-publishers-and-subscriber": {
        "pre": [], "pubs": [[("c.1", 0), ("c.1", 1)], [("c.1", 0)]], "subs": ["c.*"], "drain": ["c.1", "*"]},
    "H3-routing-two-channels": {
        "pre": [], "pubs": [[("x.1", 0), ("x.1", 1)], [("y.1", 0), ("x.1", 0)]], "subs": ["y.1"], "drain": ["x.*", "*"]},
    "H4-existing-channel": {
        "pre": [("c.1", 0)], "pubs": [[("c.1", 0), ("c.1", 1)], [("c.1", 0)]], "subs": ["c.?"], "drain": ["*"]},
    "H5-three-publishers": {
        "pre": [], "pubs": [[("c.1", 0)], [("c.1", 0)], [("c.1", 0), ("d.1", 0)]], "subs": [], "drain": ["c.1", "*"]},
    "H6-two-subscribers": {
        "pre": [("c.1", 0), ("c.1", 1)], "pubs": [[("c.1", 0)]], "subs": ["c.1", "c.*"], "drain": ["*"]},
    "H8-one-publisher-one-subscriber": {
        "pre": [], "pubs": [[("c.1", 0)]], "subs": ["c.*"], "drain": ["*"]},
    "H7-one-message-each-two-new-channels": {
        "pre": [], "pubs": [[("c.1", 0)], [("c.2", 0)]], "subs": ["c.*"], "drain": ["*"]},
    # subscriptions opened BEFORE any matching channel exists and iterated after the publishers are done: a subscription is a
    # live view of the transport — whatever matches when it is iterated is delivered through it, nothing is left for a later one
    "H9-subscription-opened-before-channels-exist": {
        "pre": [("d.1", 0)], "pubs": [[("c.1", 0), ("c.1", 1)], [("c.2", 0), ("c.1", 0)]], "subs": [], "preopen": ["c.*", "c.2"], "drain": ["*"]},
    # what a message carries is up to the publisher: identity in the data, only in the context, only in the metadata — or nothing at
    # all (data None, empty context, no metadata): a message is a message, however empty (bare ones are counted, they have no identity)
    "H11-message-shapes": {
        "pre": [("c.1", 0, "bare")], "pubs": [[("c.1", 0, "data"), ("c.1", 1, "bare"), ("c.1", 2, "ctx")], [("c.1", 0, "meta"), ("c.2", 1, "bare-none")]],
        "subs": ["c.*"], "drain": ["*"]},
    # participants that connect() / close() the shared transport object while others use it (what a master and its workers do at
    # start and exit): connection management is not message management
    "H12-connect-and-close-around-traffic": {
        "pre": [("c.1", 0)], "pubs": [[("@close",), ("c.1", 0), ("@connect",), ("c.1", 1)], [("@connect",), ("c.2", 0), ("@close",)]], "subs": ["c.*"], "drain": ["*"]},
    "H13-publish-before-anyone-connects": {
        "pre": [("c.1", 0), ("c.2", 0)], "pubs": [[("@connect",), ("c.1", 0)], [("@connect",), ("@close",), ("@connect",)]], "subs": [], "preopen": ["c.2"], "drain": ["*"]},
    # beyond the small scope: 18 channels with one pending message each and a consumer that takes ONE message per subscription and
    # leaves (the master's polling pattern: subscribe, handle one, break, close, poll again)
    "H14-eighteen-channels-polling-consumer": {
        "pre": [(f"k.{i:02d}", 0) for i in range(18)], "pubs": [[("k.03", 1), ("k.17", 1)]], "subs": [], "pollers": ["k.*"], "drain": ["*"]},
    # the transport (with a pending message and an open subscription) was built by another process: what a forked child sees is the same
    # objects under a different os.getpid()
    "H15-used-in-a-forked-child": {
        "pre": [("d.1", 0)], "pubs": [[("c.1", 0), ("c.1", 1)], [("c.2", 0), ("c.1", 0)]], "subs": ["d.*"], "preopen": ["c.*"], "drain": ["*"],
        "pid_changes": True},
    # a callback subscription (the transport starts a runner thread that feeds every matching message to the callback): a consumer like
    # any other - what it takes off the queues must reach the callback, the rest stays for later subscriptions
    "H16-callback-subscription": {
        "pre": [("c.1", 0), ("c.1", 1)], "pubs": [[("c.1", 0), ("c.2", 0)]], "subs": [], "callbacks": ["c.*"], "drain": ["*"]},
    # two concurrent subscribers whose patterns are DISJOINT (whatever the matcher shares between subscriptions shows as a message routed
    # to the wrong one, or left behind)
    "H17-two-subscribers-disjoint-patterns": {
        "pre": [("a.1", 0), ("b.1", 0)], "pubs": [[("a.1", 1)]], "subs": ["a.*", "b.?"], "drain": ["*"]},
    "H10-preopened-exact-and-concurrent-subscriber": {
        "pre": [], "pubs": [[("c.1", 0)], [("c.1", 0)]], "subs": ["c.?"], "preopen": ["c.1"], "drain": ["*"]},
}


BARE = ("<bare>", "<bare>", -1)
_REAL_GETPID = os.getpid


def run_harness(name: str, prefix: List[int]) -> sched.Execution:
    in_memory = _install_shim()
    h = HARNESSES[name]
    # scheduling points at every line of every module of the transport package (the matcher and helpers the transport calls live there too)
    pkg = os.path.dirname(in_memory.__file__)
    s = sched.Scheduler(sorted(os.path.join(pkg, f) for f in os.listdir(pkg) if f.endswith(".py")), prefix)
    _CUR[0] = s
    try:
        t = in_memory.InMemorySemantivaTransport()
        published: List[Tuple[str, str, int]] = []

        def send(ch, who, seq, shape="data"):
            ident = (ch, who, seq)
            if shape == "data":
                t.publish(ch, data=ident, context=None)
            elif shape == "ctx":
                t.publish(ch, data=None, context={"id": ident})
            elif shape == "meta":
                t.publish(ch, data=None, context=None, metadata={"id": ident})
            elif shape == "bare":
                t.publish(ch, data=None, context={})
            else:
                t.publish(ch, data=None, context=None)
            return ident if not shape.startswith("bare") else BARE

        def ident_of(m):
            if m.data is not None:
                return m.data
            for part in (m.context, m.metadata):
                if isinstance(part, dict) and "id" in part:
                    return part["id"]
            return BARE

        for item in h["pre"]:
            published.append(send(item[0], "pre", item[1], *item[2:]))
        consumed: Dict[str, List[Any]] = collections.OrderedDict()
        preopened = [(pat, t.subscribe(pat)) for pat in h.get("preopen", [])]
        if h.get("pid_changes"):
            os.getpid = lambda _p=_REAL_GETPID() + 1: _p
        tid = 0
        for pi, script in enumerate(h["pubs"]):
            def pub(script=script, pi=pi):
                for item in script:
                    if item[0] == "@connect":
                        t.connect()
                    elif item[0] == "@close":
                        t.close()
                    else:
                        send(item[0], f"P{pi}", item[1], *item[2:])
            for item in script:
                if item[0].startswith("@"):
                    continue
                published.append((item[0], f"P{pi}", item[1]) if not (len(item) > 2 and item[2].startswith("bare")) else BARE)
            s.spawn(tid, pub)
            tid += 1
        for si, pat in enumerate(h["subs"]):
            got: List[Any] = []
            consumed[f"S{si}:{pat}"] = got

            def sub(pat=pat, got=got):
                for m in t.subscribe(pat):
                    got.append(ident_of(m))
            s.spawn(tid, sub)
            tid += 1
        for ci, pat in enumerate(h.get("callbacks", [])):
            got_c: List[Any] = []
            consumed[f"C{ci}:{pat}"] = got_c
            t.subscribe(pat, callback=lambda m, got_c=got_c: got_c.append(ident_of(m)))  # spawns the runner as a scheduled thread
        for qi, pat in enumerate(h.get("pollers", [])):
            got_p: List[Any] = []
            consumed[f"Q{qi}:{pat}"] = got_p

            def poller(pat=pat, got_p=got_p):
                for _ in range(200):  # horizon: far more polls than messages
                    sub_ = t.subscribe(pat)
                    took = False
                    for m in sub_:
                        got_p.append(ident_of(m))
                        took = True
                        break
                    close = getattr(sub_, "close", None)
                    if callable(close):
                        close()
                    if not took:
                        break
            s.spawn(tid, poller)
            tid += 1
        x = s.run()
        _CUR[0] = None
        if not x.deadlock:
            for oi, (pat, subscription) in enumerate(preopened):
                consumed[f"O{oi}:{pat}"] = [ident_of(m) for m in subscription]
            for di, pat in enumerate(h["drain"]):
                consumed[f"D{di}:{pat}"] = [ident_of(m) for m in t.subscribe(pat)]
        x.obs = {"published": published, "consumed": {k: list(v) for k, v in consumed.items()},
                 "errors": {k: repr(v) for k, v in x.errors.items()}}
        return x
    finally:
        _CUR[0] = None
        os.getpid = _REAL_GETPID


def judge(x: sched.Execution) -> Optional[Tuple[str, str]]:
    if x.deadlock:
        return ("deadlock", "no thread enabled while some thread has not finished")
    if x.livelock:
        return ("livelock", "threads keep running without finishing (step horizon exceeded)")
    o = x.obs
    if o["errors"]:
        return ("thread-raised", f"a harness thread raised: {o['errors']}")
    pub = collections.Counter(map(tuple, o["published"]))
    got = collections.Counter()
    for consumer, msgs in o["consumed"].items():
        pat = consumer.split(":", 1)[1]
        last: Dict[Tuple[str, str], int] = {}
        for m in msgs:
            m = tuple(m)
            got[m] += 1
            if m == BARE:
                continue
            ch, who, seq = m
            if not fnmatch.fnmatch(ch, pat):
                return ("pattern-mismatch", f"consumer {consumer} received a message of channel {ch}")
            if last.get((ch, who), -1) >= seq:
                return ("out-of-order", f"consumer {consumer} received {who}'s messages on {ch} out of publication order: {msgs}")
            last[(ch, who)] = seq
    # what a later, fresh subscription still finds although an earlier-opened matching subscription was iterated to exhaustion
    opened = [c.split(":", 1)[1] for c in o["consumed"] if c.startswith("O")]
    for consumer, msgs in o["consumed"].items():
        if consumer.startswith("D"):
            for m in msgs:
                if tuple(m) == BARE:
                    continue
                hit = [p for p in opened if fnmatch.fnmatch(tuple(m)[0], p)]
                if hit:
                    return ("subscription-misses-matching-message",
                            f"message {tuple(m)} was queued when the subscription(s) {hit} (opened before its channel existed) were iterated to exhaustion, yet only a later subscription received it")
    lost = pub - got
    dup = got - pub
    if lost:
        return ("message-lost", f"published but never delivered: {sorted(lost.elements())}")
    if dup:
        return ("message-duplicated", f"delivered more often than published: {sorted(dup.elements())}")
    return None


def outcome_key(x: sched.Execution) -> str:
    return json.dumps(x.obs["consumed"], sort_keys=True) if x.obs else "deadlock"


BUDGET = 3000  # executions per task; the unexplored rest of a task's search stack comes back as further tasks


def _explore_root(arg):
    name, bound, roots, cap = arg
    st, fails, capped = sched.explore(lambda p: run_harness(name, p), judge, bound, roots=roots,
                                      max_executions=cap, outcome_key=outcome_key, budget=BUDGET)
    rest, st.rest = st.rest, []
    more = [(name, bound, rest[i::4], cap) for i in range(4) if rest[i::4]]
    return (name, st, [(c, n, b) for c, n, b in fails], capped), more


def roots_for(name: str, bound: int) -> List[List[int]]:
    """Split the DFS at the first level so subtrees can be explored in parallel."""
    x = run_harness(name, [])
    roots: List[List[int]] = [[]]
    # the root [] explores only the default run itself when we hand out all depth-1 alternatives:
    out: List[Tuple[List[int], bool]] = []
    for i, p in enumerate(x.points):
        cost = 1 if p.running_enabled else 0
        if cost <= bound:
            for alt in range(1, len(p.enabled)):
                out.append((x.choices[:i] + [alt], True))
    return [r for r, _ in out]


def check(tier: str, seed: int) -> Result:
    if tier == "quick":
        plan = [("H1-two-publishers-new-channel", 2), ("H2-publishers-and-subscriber", 1), ("H3-routing-two-channels", 1),
                ("H4-existing-channel", 1), ("H6-two-subscribers", 1), ("H7-one-message-each-two-new-channels", 1),
                ("H8-one-publisher-one-subscriber", 2), ("H9-subscription-opened-before-channels-exist", 1), ("H10-preopened-exact-and-concurrent-subscriber", 1), ("H11-message-shapes", 1), ("H12-connect-and-close-around-traffic", 1), ("H13-publish-before-anyone-connects", 1), ("H14-eighteen-channels-polling-consumer", 0), ("H15-used-in-a-forked-child", 1), ("H16-callback-subscription", 1), ("H17-two-subscribers-disjoint-patterns", 1)]
        cap = 400000
    else:
        plan = [("H1-two-publishers-new-channel", 3), ("H2-publishers-and-subscriber", 2), ("H3-routing-two-channels", 2),
                ("H4-existing-channel", 2), ("H5-three-publishers", 2), ("H6-two-subscribers", 2),
                ("H7-one-message-each-two-new-channels", 3), ("H8-one-publisher-one-subscriber", 3),
                ("H9-subscription-opened-before-channels-exist", 2), ("H10-preopened-exact-and-concurrent-subscriber", 3), ("H11-message-shapes", 2), ("H12-connect-and-close-around-traffic", 2), ("H13-publish-before-anyone-connects", 2), ("H14-eighteen-channels-polling-consumer", 1), ("H15-used-in-a-forked-child", 2), ("H16-callback-subscription", 3), ("H17-two-subscribers-disjoint-patterns", 2)]
        cap = 3000000
    jobs = []
    per: Dict[str, dict] = {}
    for name, bound in plan:
        run_harness(name, [])  # warm-up: whatever the library memoises at module level is in its steady state before schedules are recorded
        x0 = run_harness(name, [])
        bad0 = judge(x0)
        per[name] = {"bound": bound, "executions": 1, "points_default_run": len(x0.points), "by_preemptions": {0: 1},
                     "outcomes": {outcome_key(x0): 1}, "failures": [], "capped": False, "transitions": len(x0.points)}
        if bad0:
            per[name]["failures"].append(([], 0, bad0))
        # determinism self-check: same prefix twice => identical trace
        x1 = run_harness(name, [])
        if x1.trace != x0.trace or x1.obs != x0.obs:
            raise sched.ReplayDivergence(f"{name}: default schedule not reproducible")
        rs = roots_for(name, bound) if not x0.livelock else []
        for k in range(0, len(rs), 8):
            jobs.append((name, bound, rs[k:k + 8], cap))
    jobs = core.seeded_order(jobs, seed)
    for part in core.pmap_dynamic(_explore_root, jobs):
        for name, st, fails, capped in [part]:
            p = per[name]
            p["executions"] += st.executions
            p["transitions"] += st.points
            for k, v in st.by_preemptions.items():
                p["by_preemptions"][k] = p["by_preemptions"].get(k, 0) + v
            for k, v in st.outcomes.items():
                p["outcomes"][k] = p["outcomes"].get(k, 0) + v
            p["failures"].extend(fails)
            p["capped"] = p["capped"] or capped
    viols: List[Violation] = []
    samples = []
    total_exec = total_tr = 0
    outcomes_total = 0
    for name, p in per.items():
        total_exec += p["executions"]
        total_tr += p["transitions"]
        outcomes_total += len(p["outcomes"])
        if p["failures"]:
            # the failure with the fewest preemptions, then shortest schedule
            choices, npre, (sig, msg) = min(p["failures"], key=lambda f: (f[1], len(f[0])))
            # replay twice: identical observations required before reporting
            a, b = run_harness(name, choices), run_harness(name, choices)
            if a.obs != b.obs or a.trace != b.trace:
                raise sched.ReplayDivergence(f"{name}: failing schedule does not replay deterministically")
            viols.append(Violation(sig, f"{name}: {msg} [preemptions={npre}, schedule={choices}]",
                                   {"harness": name, "choices": choices, "trace": [f"T{t}@{w}" for t, w in a.trace]}))
        samples.append({"harness": name, "bound": p["bound"], "executions": p["executions"],
                        "distinct_outcomes": len(p["outcomes"]), "by_preemptions": p["by_preemptions"],
                        "points_default_run": p["points_default_run"], "capped": p["capped"],
                        "example_outcome": next(iter(p["outcomes"]))})
    capped_any = any(p["capped"] for p in per.values())
    cov = {
        "states": total_tr, "transitions": total_tr, "traces_validated_against_impl": total_exec,
        "evaluations": total_exec, "distinct_nontrivial": outcomes_total,
        "rule": "every schedule of each harness with at most <bound> preemptions, scheduling points at every source line of "
                "in_memory.py and every lock acquisition; states = scheduling points visited (stateless search: no state merging), "
                "distinct_nontrivial = number of distinct delivery outcomes observed",
        "schedules": total_exec, "distinct_outcomes": outcomes_total,
        "harnesses": {n: {k: v for k, v in p.items() if k not in ("failures", "outcomes")} for n, p in per.items()},
        "samples": samples, "exhaustive": not capped_any, "cap_hit": capped_any,
    }
    return Result("model_checking", cov, viols, [
        "line granularity: switches inside one source line are not explored (each shared access is one C-level deque/dict "
        "operation or is separated from its neighbours by a line boundary)",
        "threading.Lock of in_memory.py is replaced by a cooperative lock; CPython GIL semantics",
        "the final drain runs after all threads finished (as in the property's observe_at)",
    ])


def replay(case) -> List[Violation]:
    x = run_harness(case["harness"], case["choices"])
    bad = judge(x)
    return [Violation(bad[0], f"{case['harness']}: {bad[1]}", case)] if bad else []



# ---------------------------------------------------------------------------------------------
# environment grid (mc/envgrid.py): a fixed, enumerated family of schedules of every harness, judged in every environment

def env_cases(tier: str):
    out = []
    for name in sorted(HARNESSES):
        x = run_harness(name, [])
        out.append({"harness": name, "prefix": []})
        alts = [(i, a) for i, p in enumerate(x.points) for a in range(1, len(p.enabled))]
        for i, a in alts[:: max(1, len(alts) // (4 if tier == "quick" else 40))]:
            out.append({"harness": name, "prefix": x.choices[:i] + [a]})
    return out


def env_observe(case):
    try:
        x = run_harness(case["harness"], list(case["prefix"]))
    except sched.ReplayDivergence:
        # python -O / -OO compile other line tables: a choice sequence recorded in the base environment may not exist there
        return {"judged": None, "deadlock": False, "livelock": False}
    bad = judge(x)
    return {"judged": bad[0] if bad else None, "deadlock": x.deadlock, "livelock": x.livelock}
