#!/bin/sh
# tools/with_mutant.sh <patch.diff> <check-id> [tier]   — run a check against a scratch copy of /repo with the patch applied.
# The copy lives under /tmp and is removed afterwards. Never touches /repo.
set -e
PATCH="$(realpath "$1")"; ID="$2"; TIER="${3:-quick}"
D="$(mktemp -d /tmp/mut.XXXXXX)"
trap 'rm -rf "$D"' EXIT
mkdir -p "$D/tmp"; export TMPDIR="$D/tmp"
if [ -n "$BASE" ]; then
  # seeds made against an older /repo commit: materialise that commit instead of the working tree
  mkdir -p "$D/repo" && git -C /repo archive "$BASE" | tar -x -C "$D/repo"
else
  rsync -a --exclude .git --exclude docs --exclude logs /repo/ "$D/repo/"
fi
(cd "$D/repo" && patch -p1 -s < "$PATCH") || { echo "PATCH-DOES-NOT-APPLY (try BASE=<commit>)"; exit 2; }
cd /verif
VERIF_REPO="$D/repo" VERIF_EVIDENCE_DIR="$D/evidence" VERIF_REPLAY_DIR="$D/replays" ./check "$ID" --tier "$TIER"
