"""C02 — static inspection is sound: accepted configs do not fail on flow at run time, and the per-node
facts inspection reports are true of the run.

The inspection is the model; every fact it asserts is replayed against the implementation (and the
reference interpreter bound to it by C01) on all enumerated programs.
"""
from __future__ import annotations

import itertools
from typing import Any, Dict, List, Optional, Sequence, Tuple

from mc import core, gen, harness
from mc.core import Result, Violation
from mc.props.c06 import first_accepted_kind
from mc.ref import interp

FLOW_REASONS = {"unresolvable", "type-gate", "construct", "missing-key-to-suppress"}
ALPHA = [s for s in gen.ALL if s not in gen.DELIBERATE]
PRIME = ["tmpl_aa", "del_a"] + [s for s in gen.PRIME if s not in gen.DELIBERATE] + ["probe_r", "tmpl_path", "ren_factor_a", "two"]


def inspect_prog(prog):
    """(inspection or None, error string or None, node configs)"""
    from semantiva.inspection import build_pipeline_inspection, validate_pipeline

    cfg = harness.load_config(gen.yaml_config(prog))
    insp = build_pipeline_inspection(cfg.nodes)
    try:
        validate_pipeline(insp)
    except Exception as exc:
        return insp, f"{type(exc).__name__}: {exc}", cfg
    return insp, None, cfg


def real_flow_kind(exc) -> Optional[str]:
    """Classify what the run raised by the framework's own exception class and message (no reference involved)."""
    name, msg = type(exc).__name__, str(exc)
    if name == "KeyError" and "not found in context" in msg:
        return "missing-key-to-suppress"
    if name == "KeyError" and "Unable to resolve parameter" in msg:
        return "unresolvable-parameter"
    if name == "TypeError" and "Incompatible data type" in msg:
        return "type-gate"
    if name == "KeyError" and ("Invalid suppressed key" in msg or "Invalid context key" in msg):
        # the node removed / wrote a key other than the ones it declares - and inspection reports the declared ones
        return "declared-keys-are-not-the-keys-the-node-touches"
    if name == "InvalidNodeParameterError":
        return "unknown-parameter"
    if name in ("PipelineConfigurationError", "UnknownProcessorError"):
        return "construction"
    return None


def value_for(key: str):
    return gen.KEY_VALUES.get(key, [1.0, 2.0] if key.endswith("_values") else 0.0625)


def last_writer(ref: interp.Outcome, i: int, key: str) -> Optional[int]:
    """0-based index of the node that last wrote `key` before node i, or None (initial context)."""
    for j in range(i - 1, -1, -1):
        d = ref.diffs[j]
        if key in d["created"] or key in d["rewritten"]:
            # 'rewritten' = key present before and after; count it as a write only if the node really wrote it
            if key in d["created"] or key in d["updated"] or key in _declared_writes(ref, j):
                return j
    return None


_PROG_FOR_REF: Dict[int, Sequence[str]] = {}


def _declared_writes(ref: interp.Outcome, j: int) -> set:
    prog = _PROG_FOR_REF.get(id(ref), ())
    if j >= len(prog):
        return set()
    sym = gen.SYMBOLS[prog[j]]
    k = sym["kind"]
    if k in ("probe", "slicer_probe"):
        return {sym["ckey"]}
    if k == "sweep_probe":
        return {sym["ckey"]} | {f"{v}_values" for v in sym["vars"]}
    if k == "ctx" and sym["op"] in ("rename", "template"):
        return {sym["dst"]}
    if k == "op" and sym.get("proc") == "VCtxWrite":
        return {"a"}
    if k == "paysource":
        return {"b"}
    if k in ("sweep_src", "sweep_op", "sweep_probe"):
        return {f"{v}_values" for v in sym["vars"]}
    return set()


def judge(prog, scratch, extras: int) -> Tuple[List[Tuple[str, str, dict]], dict]:
    out: List[Tuple[str, str, dict]] = []
    info = {"accepted": False, "runs": 0}
    insp, err, cfg = inspect_prog(prog)
    dkind = first_accepted_kind(prog)
    from semantiva.pipeline import Pipeline

    # (iii) unknown parameters: same names at inspection and at run time
    static_unknown = {n.index - 1: sorted(i["name"] for i in n.invalid_parameters) for n in insp.nodes if n.invalid_parameters}
    if static_unknown or any(gen.SYMBOLS[s].get("error") == "InvalidNodeParameterError" for s in prog):
        pipe = Pipeline(cfg.nodes)
        real = harness.run_pipeline(pipe, gen.make_data(dkind), {k: value_for(k) for k in gen.read_keys(prog)}, scratch)
        info["runs"] += 1
        run_names = sorted(getattr(real.exc, "invalid", {}).keys()) if real.error == "InvalidNodeParameterError" else None
        first = min(static_unknown) if static_unknown else None
        stat_names = static_unknown.get(first) if first is not None else None
        earlier_invalid = any(gen.SYMBOLS[s]["kind"] == "invalid" and gen.SYMBOLS[s].get("error") != "InvalidNodeParameterError"
                              for s in prog[: (first if first is not None else len(prog))])
        if not earlier_invalid and run_names != stat_names:
            out.append(("unknown-parameters-differ", f"inspection reports unknown parameters {static_unknown}; the run raised {real.error} {run_names}",
                        {"prog": list(prog), "part": "unknown"}))
        if err is None:
            out.append(("invalid-config-accepted", "inspection + validation accept a configuration with unknown parameters", {"prog": list(prog), "part": "unknown"}))
        return out, info
    if err is not None:
        return out, info  # rejected by inspection: nothing is claimed
    info["accepted"] = True
    R = sorted(insp.required_context_keys)
    others = [k for k in gen.KEY_VALUES if k not in R]
    ctxs: List[Dict[str, Any]] = [{k: value_for(k) for k in R}]
    for r in range(1, extras + 1):
        for extra in itertools.combinations(others, r):
            c = {k: value_for(k) for k in R}
            c.update({k: value_for(k) for k in extra})
            ctxs.append(c)
    if R:
        # the required keys supplied with falsy-but-not-None values: still "supplied"
        ctxs.append({k: gen.FALSY_VALUES.get(k, 0.0) for k in R})
    pipe = Pipeline(cfg.nodes)
    for ci, ctx in enumerate(ctxs):
        ref = interp.run(prog, gen.ref_data(dkind), ctx)
        _PROG_FOR_REF[id(ref)] = prog
        if ci == 0:
            real, per_node, _outside = harness.run_observed(pipe, gen.make_data(dkind), ctx, scratch)
        else:
            real, per_node = harness.run_pipeline(pipe, gen.make_data(dkind), ctx, scratch), []
        info["runs"] += 1
        case = {"prog": list(prog), "ctx": ctx, "part": "soundness"}
        # (i) soundness: no flow failure
        if real.status != "ok":
            reason = ref.reason if (ref.status == real.status and ref.error == real.error and ref.index == real.index) else "unclassified"
            if reason in FLOW_REASONS or (reason == "unclassified" and real.error in ("KeyError", "TypeError", "InvalidNodeParameterError", "PipelineConfigurationError", "UnknownProcessorError")):
                kind = {"unresolvable": "unresolvable-parameter", "type-gate": "type-gate", "construct": "construction"}.get(reason, reason)
                if kind == "missing-key-to-suppress" and real.index is not None and real.index < len(prog):
                    kind = f"missing-key-to-suppress|{gen.SYMBOLS[prog[real.index]]['op']}-with-its-key-configured-on-the-node"
                if reason == "unclassified":
                    # the run departs from the reference account (C01's business) — but if what it raised IS one of the flow
                    # failures the property names (judged by the framework's own exception), the implication is broken all the same
                    kind = real_flow_kind(real.exc)
                    if kind is None:
                        continue
                first_fail = prog[real.index] if real.index is not None and real.index < len(prog) else "?"
                out.append((f"accepted-config-fails-on-flow|{kind}",
                            f"inspection accepts {list(prog)} with required keys {R}; with context {sorted(ctx)} the run raises {real.error} at node {real.index} ({first_fail}): {real.exc!r}",
                            case))
                if ci == 0:
                    break
            continue
        if ci != 0 or ref.status != "ok":
            _PROG_FOR_REF.pop(id(ref), None)
            continue
        # (ii) per-node facts with context == R exactly, judged on what the REAL run did node by node (harness.run_observed:
        # the caller's mapping records every assignment / removal between a node's entry and its return)
        if len(per_node) != len(insp.nodes) or not all(pn["returned"] for pn in per_node):
            _PROG_FOR_REF.pop(id(ref), None)
            continue  # cannot happen for a run that returned; a disagreement with the reference is C01's business
        pre = dict(ctx)
        for i, n in enumerate(insp.nodes):
            post = per_node[i]["post"]
            appeared = {k for k in post if k not in pre}
            changed = {k for k in post if k in pre and post[k] != pre[k]}
            gone = {k for k in pre if k not in post}
            rep_created, rep_supp = set(n.created_keys), set(n.suppressed_keys)
            where = f"node {i} ({prog[i]})"
            c2 = {"prog": list(prog), "ctx": ctx, "part": "facts"}
            if not (appeared | changed) <= rep_created:
                out.append(("unreported-created-key", f"{where}: keys {sorted((appeared | changed) - rep_created)} appear/change but created_keys={sorted(rep_created)}", c2))
            if not rep_created <= set(post):
                out.append((f"reported-created-key-absent|{gen.SYMBOLS[prog[i]]['kind']}", f"{where}: created_keys={sorted(rep_created)} but {sorted(rep_created - set(post))} not in the context afterwards", c2))
            elif not rep_created <= per_node[i]["set"]:
                out.append((f"reported-created-key-not-written|{gen.SYMBOLS[prog[i]]['kind']}",
                            f"{where}: created_keys={sorted(rep_created)} but the node never assigned {sorted(rep_created - per_node[i]['set'])} (keys it assigned: {sorted(per_node[i]['set'])})", c2))
            if gone != rep_supp:
                out.append(("wrong-suppressed-keys", f"{where}: keys {sorted(gone)} disappear but suppressed_keys={sorted(rep_supp)}", c2))
            # parameter origins
            table = ref.table[i] if i < len(ref.table) else {}
            sym = gen.SYMBOLS[prog[i]]
            for name, (value, channel) in table.items():
                if name in sym["cfg"]:
                    rep = "node"
                elif name in n.context_params:
                    rep = "context"
                elif name in n.default_params:
                    rep = "default"
                else:
                    rep = "unreported"
                if rep != channel:
                    out.append((f"wrong-parameter-origin|{channel}-reported-as-{rep}",
                                f"{where}: parameter {name} comes from {channel} (value {value!r}) at run time; inspection says {rep}", c2))
                elif channel == "context":
                    want = next((j for j in range(i - 1, -1, -1) if name in per_node[j]["set"]), None)
                    got = n.context_params.get(name)
                    got0 = None if got is None else got - 1
                    if got0 != want:
                        out.append(("wrong-context-origin-node",
                                    f"{where}: parameter {name} was last written by node {want} (None = initial context); inspection says node {got0}", c2))
            pre = post
        _PROG_FOR_REF.pop(id(ref), None)
    return out, info


def _worker(chunk):
    harness.quiet()
    scratch = harness.enter_scratch()
    st = {"programs": 0, "accepted": 0, "runs": 0, "viol": [], "nontrivial": set(), "facts": 0}
    for prog, extras in chunk:
        st["programs"] += 1
        try:
            v, info = judge(prog, scratch, extras)
        except Exception as exc:
            if type(exc).__name__ in ("UnknownProcessorError",):
                continue
            raise
        st["accepted"] += 1 if info["accepted"] else 0
        st["runs"] += info["runs"]
        if info["accepted"] and len(prog) >= 2:
            st["nontrivial"].add(core.sha(prog))
        for sig, msg, case in v:
            st["viol"].append((sig, f"{msg}", case))
        from mc.props.c01 import _housekeeping

        _housekeeping()
    st["nontrivial"] = list(st["nontrivial"])
    return st


# two nodes that both publish the same key (different values), then a reader of it: the reader's origin is the LAST writer
TWO_WRITERS = [
    ("sweep_src", "sum", "sweep_op"), ("sweep_src", "sum", "sweep_op", "ren_tv_a"), ("sweep_src", "sum", "sweep_op", "sum", "ren_tv_a", "muldef"),
    ("sweep_src", "sum", "sweep_probe", "ren_tv_a"), ("src", "sweep_two", "sum", "sweep_op", "ren_tv_a"),
    # two generated classes of ONE name (same element class, another swept parameter): each is analysed for what IT needs
    ("src", "sweep_two", "sum", "sweep_two_b"), ("src", "sweep_two_b", "sum", "sweep_two"), ("src", "sweep_two_b"), ("src", "sweep_two"),
    ("src", "sweep_two_b", "sum", "sweep_two", "sum", "sweep_two_b", "sum"),
    # beyond the small scope: a defaulted parameter and the node that deletes / renames the same-named required key 6-12 nodes apart
    ("src", "mul3", "muldef", "add", "add", "add", "add", "add", "del_factor"),
    ("src", "mul3", "muldef", "add", "add", "add", "add", "add", "add", "del_factor"),
    ("src", "mul3", "mul3", "muldef", "add", "add", "add", "add", "add", "add", "add", "ren_factor_a"),
    ("src", "mul3", "add", "add", "del_factor", "add", "add", "add", "add", "muldef", "add"),
    ("src",) + ("mul3",) * 9 + ("muldef", "gainprobe") + ("mul3",) * 20 + ("del_factor", "mul3", "muldef"),
    ("src", "probe_r", "mul3", "probe_r", "ren_r_factor", "mul"), ("src", "ctxw", "mul3", "ctxw", "failif"), ("src", "probe_factor", "mul", "probe_factor", "mul"),
]


def program_set(tier: str):
    if tier == "quick":
        progs = gen.programs(ALPHA, [1, 2]) + gen.programs(PRIME[:14], [3])
        for sp in gen.SPINES[:2]:
            progs += gen.edits(sp, PRIME[:10], 1)
        extras = 1
    else:
        progs = gen.programs(ALPHA, [1, 2, 3]) + gen.programs(PRIME[:11], [4])
        for sp in gen.SPINES:
            progs += gen.edits(sp, PRIME, 1)
        extras = 2
    progs += TWO_WRITERS + list(gen.MENU_PROGS)
    progs = [p for p in sorted(set(progs)) if not any(s in gen.DELIBERATE for s in p)]
    return [(p, extras if len(p) <= 2 else 1) for p in progs]


def check(tier: str, seed: int) -> Result:
    jobs = core.seeded_order(program_set(tier), seed)
    tot = {"programs": 0, "accepted": 0, "runs": 0}
    nontrivial = set()
    viols: List[Violation] = []
    for st in core.pmap_chunks(_worker, jobs, chunk=max(8, len(jobs) // (core.NPROC * 8)), maxtasks=4):
        for k in tot:
            tot[k] += st[k]
        nontrivial.update(st["nontrivial"])
        for sig, msg, case in st["viol"]:
            viols.append(Violation(sig, msg, case))
    cov = {
        "states": tot["accepted"], "transitions": tot["runs"], "traces_validated_against_impl": tot["runs"],
        "evaluations": tot["runs"], "distinct_nontrivial": len(nontrivial), "programs": tot["programs"],
        "programs_accepted_by_inspection": tot["accepted"],
        "rule": "all programs of length 1-2 over the alphabet without deliberately failing processors, length 3 (thorough: 1-3 full, 4 reduced) "
                "over a reduced one, plus programs within one edit of length-8 spines; each accepted program is executed with the reported "
                "required keys R and with R + every 1 (thorough 2) other keys; per-node facts compared with the run when context == R. "
                "states = accepted programs (models), transitions = executions; non-trivial = accepted programs with >= 2 nodes",
        "samples": [{"prog": list(jobs[0][0])}, {"prog": list(jobs[len(jobs) // 2][0])}], "exhaustive": True,
    }
    return Result("model_checking", cov, viols, [
        "an overwrite of an existing key counts as 'created'; keys that change must be reported, reported keys must exist afterwards",
        "failures that are not flow failures (processor arithmetic on foreign values, payload-source key collision) are outside the claim",
        "initial data is of the kind the first data node accepts",
    ])


def replay(case) -> List[Violation]:
    harness.quiet()
    scratch = harness.enter_scratch()
    v, _ = judge(tuple(case["prog"]), scratch, 2)
    return [Violation(s, m, c) for s, m, c in v if c.get("part") == case.get("part")]


# ---------------------------------------------------------------------------------------------
# environment grid (mc/envgrid.py): what inspection says and whether it is true of the run do not depend on the process

def env_cases(tier: str):
    from mc import envgrid
    from mc.props.c06 import ENV_MANY_KEYS

    return [{"prog": list(p), "extras": e} for p, e in envgrid.pick(program_set("quick"), 40 if tier == "quick" else 300)] + \
           [{"prog": list(p), "extras": 1} for p in TWO_WRITERS[:6]] + [{"prog": list(p), "extras": 1} for p in ENV_MANY_KEYS]


def env_observe(case):
    from mc import envgrid

    scratch = envgrid.scratch()
    prog = tuple(case["prog"])
    insp, err, cfg = inspect_prog(prog)
    facts = [{"created": sorted(getattr(n, "created_keys", []) or []), "suppressed": sorted(getattr(n, "suppressed_keys", []) or []),
              "required": sorted(getattr(n, "required_context_keys", []) or []), "errors": [str(e)[:120] for e in (getattr(n, "errors", []) or [])]}
             for n in insp.nodes]
    v, info = judge(prog, scratch, case["extras"])
    return envgrid.norm({"inspection_error": err, "required": sorted(insp.required_context_keys), "facts": facts,
                         "judged": sorted({sig for sig, _, _ in v}), "accepted": info["accepted"], "runs": info["runs"]}, scratch)
