"""Configurations used by the identity checks (C04 / C05 / C09): all kinds, nested parameter mappings, sweeps, run spaces."""
from __future__ import annotations

import copy
import itertools
from typing import Any, Dict, List

from mc import gen

NESTED = {"opts": {"b": {"y": 2, "x": [1, {"k": "v", "j": [True, None]}]}, "a": 1.5, "c": "s p"}, "items": [1, "two", 3.0, None, True, 16], "label": "L"}


def _sweep(proc, parameters, variables, collection="FloatDataCollection", **kw):
    ps: Dict[str, Any] = {"parameters": parameters, "variables": variables}
    if collection:
        ps["collection"] = collection
    ps.update(kw)
    return {"processor": proc, "derive": {"parameter_sweep": ps}}


SWEEPS: List[dict] = [
    _sweep("VSrc", {"value": "2.0 * t"}, {"t": {"values": [1.0, 2.0, 3.0]}}),
    _sweep("VSrc2", {"value": "2.0 * t + u * 3.0 + 1.0"}, {"u": {"lo": 1.0, "hi": 2.0, "steps": 2}, "t": {"values": [1.0, 2.0]}}, mode="combinatorial"),
    _sweep("VSrc2", {"value": "t - u", "offset": "max(t, u)"}, {"t": {"lo": 1.0, "hi": 100.0, "steps": 3, "scale": "log", "endpoint": False},
                                                                "u": {"values": [3.0, 1.0, 2.0]}}, mode="by_position", broadcast=False),
    _sweep("VSrc", {"value": "float(t)"}, {"t": {"values": [1.0, 2.0, 3.0, 4.0, 5.0, 6.0, 7.0, 8.0, 9.0]}}),
    _sweep("VSrc", {"value": "t * 2.0"}, {"t": {"from_context": "r"}}),
    _sweep("VSrc2", {"value": "t"}, {"t": {"values": [1.0, 2.0]}, "u": {"values": [5.0]}}, mode="by_position", broadcast=True),
    _sweep("VSrc2", {"value": "t + u", "offset": "v"}, {"u": {"from_context": "r"}, "t": {"from_context": "q"}, "v": {"from_context": "r"}}, mode="by_position", broadcast=True),
]
OP_SWEEP = _sweep("VTwo", {"factor": "t ** 2 // 1 + (u if t < u else -u)"}, {"t": {"values": [1.0, 2.0]}, "u": {"lo": 0.5, "hi": 1.5, "steps": 2}})
OP_SWEEP["parameters"] = {"addend": 0.25}
PROBE_SWEEP = _sweep("VTwoProbe", {"factor": "abs(t) % 3"}, {"t": {"values": [1.0, 2.0]}}, collection=None)
PROBE_SWEEP["context_key"] = "res"
# two from_context variables reading different keys, for every wrapped kind
OP_SWEEP_CTX = _sweep("VTwo", {"factor": "t + u"}, {"u": {"from_context": "r"}, "t": {"from_context": "q"}}, mode="by_position", broadcast=True)
PROBE_SWEEP_CTX = _sweep("VTwoProbe", {"factor": "t * u"}, {"u": {"from_context": "r"}, "t": {"from_context": "q"}, "s": {"from_context": "a"}}, collection=None)
PROBE_SWEEP_CTX["context_key"] = "res"

RUN_SPACES: List[dict] = [
    {"blocks": [{"mode": "by_position", "context": {"value": [1.0, 2.0], "a": [0.0, 0.0]}}]},
    {"combine": "combinatorial", "max_runs": 50, "blocks": [{"mode": "combinatorial", "context": {"factor": [3.0, 4.0], "addend": [0.5]}},
                                                            {"mode": "by_position", "context": {"value": [1.0, 2.0]}}]},
    {"combine": "by_position", "blocks": [{"mode": "by_position", "context": {"value": [1.0, 2.0]}},
                                          {"mode": "by_position", "source": {"format": "csv", "path": "rs.csv", "select": ["factor"], "rename": {"factor": "addend"}}}]},
]


def n(proc, params=None, **extra):
    d: Dict[str, Any] = {"processor": proc}
    if params is not None:
        d["parameters"] = params
    d.update(extra)
    return d


def base_configs(tier: str) -> List[dict]:
    out: List[dict] = []

    def cfg(nodes, run_space=None):
        c: Dict[str, Any] = {"extensions": ["verif_lib"], "pipeline": {"nodes": copy.deepcopy(nodes)}}
        if run_space is not None:
            c["run_space"] = copy.deepcopy(run_space)
        return c

    # every kind of the alphabet, in valid pipelines
    progs = [
        ("src", "mul3", "probe_r", "ren_r_factor", "muldef", "ctxw", "tmpl_a", "sink"),
        ("paysrc", "ctxw", "tmpl_path", "sink_ctx", "probe_factor", "mul", "del_factor", "muldef"),
        ("srcdef", "sweep_op", "slice_mul", "sum", "add", "failif", "ren_factor_a", "sink_cfg"),
        ("sweep_src", "slice_muldef", "slice_probe", "sum", "gainprobe", "two_cfg", "del_a", "paysink"),
        ("src", "mul3", "mul3"),                      # textually identical nodes
        ("src", "two", "two", "two_cfg", "sink"),
        ("src_ctx", "failif", "probe_r"),
    ]
    for p in progs:
        out.append(cfg([gen.SYMBOLS[s]["node"] for s in p]))
    # many required context keys (set-iteration order must not leak into the payload)
    out.insert(0, cfg([gen.SYMBOLS[s]["node"] for s in ("src_ctx", "mul", "add", "gainprobe", "sink_ctx")] + [n("VNested", {"label": "many-keys"}),
                      n('template:"{a}{b}{r}{zz}":path2')]))
    # nested parameter mappings (depth 3), identical structured nodes
    out.append(cfg([n("VSrc", {"value": 2.0}), n("VNested", NESTED), n("VNested", NESTED), n("VSink")]))
    out.append(cfg([n("VSrc", {"value": 16.0}), n("VNested", {"opts": {"z": {"zz": {"zzz": [1, 2, 3]}}, "a": {}}, "items": []}), n("VTxtSink", {"path": "o.txt"})]))
    # every YAML-representable kind of scalar as a parameter value (and in a sweep's value list)
    out.append(cfg([n("VSrc", {"value": 2.0}),
                    n("VNested", {"opts": {"i": 5, "t": True, "f": False, "nz": -0.0, "inf": float("inf"), "ninf": float("-inf"), "nan": float("nan"), "s": "5.0", "e": "",
                                           "n": None, "big": 10 ** 20, "m": {}}, "items": [1, 1.0, True, None, "1", [], {}], "label": "käse ✓"}), n("VSink")]))
    # a parameters key that is present but null / empty (legal: same as no parameters for the run, its own spelling for identity)
    out.append(cfg([n("VSrc", {"value": 2.0}), {"processor": "VMulDef", "parameters": None}, {"processor": "VProbe", "context_key": "r", "parameters": None},
                    {"processor": "VMulDef", "parameters": {}}, n("VSink")]))
    # sweeps
    for i, sw in enumerate(SWEEPS):
        tail = [n("slice:VMulDef:FloatDataCollection", {"factor": 3.0}), n("VSum"), n("VProbe", context_key="r2")]
        out.append(cfg([sw] + tail[: 1 + i % 3]))
    out.append(cfg([n("VSrc", {"value": 2.0}), OP_SWEEP, n("VSum")]))
    out.append(cfg([n("VSrc", {"value": 2.0}), PROBE_SWEEP, n("VSink")]))
    out.append(cfg([n("VSrc", {"value": 2.0}), OP_SWEEP_CTX, n("VSum"), PROBE_SWEEP_CTX]))
    # several sweeps of ONE kind with different definitions in one pipeline (generated classes of one qualname side by side), and sweeps
    # that declare variables but no parameter expression at all (the wrapped processor repeated over the grid)
    op2 = _sweep("VTwo", {"factor": "t"}, {"t": {"values": [3.0, 4.0, 5.0]}}, mode="by_position")
    op2["parameters"] = {"addend": 0.5}
    out.append(cfg([n("VSrc", {"value": 2.0}), OP_SWEEP, n("VSum"), op2, n("VSum"), _sweep("VMulDef", {"factor": "2.0 * t"}, {"t": [1.0, 2.0]}), n("VSum")]))
    # beyond the small scope: an expression of 30 terms (700 characters) and a 12-term product
    long_sum = " + ".join(f"{1.0 + i} * t * u" if i % 3 else f"abs(t - {float(i)})" for i in range(30))
    long_prod = " * ".join(["t", "u", "2.0", "(t + 1.0)", "(u + 2.0)", "abs(t)", "max(t, u)", "3.0", "(t - u)", "t", "u", "1.5"])
    out.append(cfg([_sweep("VSrc2", {"value": long_sum, "offset": long_prod}, {"t": {"values": [1.0, 2.0]}, "u": {"lo": 0.5, "hi": 1.5, "steps": 2}}), n("VSum")]))
    noexpr = _sweep("VMulDef", {}, {"t": {"values": [1.0, 2.0, 3.0]}}, mode="by_position")
    noexpr_probe = _sweep("VGainProbe", {}, {"t": {"lo": 1.0, "hi": 2.0, "steps": 2}, "u": {"values": [1.0]}}, collection=None, broadcast=True, mode="by_position")
    noexpr_probe["context_key"] = "res"
    out.append(cfg([_sweep("VSrcDef", {}, {"t": {"values": [1.0, 2.0]}}), n("slice:VMulDef:FloatDataCollection"), n("VSum"), noexpr, n("VSum"), noexpr_probe]))
    # a sweep that leaves FOUR required parameters of the wrapped processor to the node configuration / the context (whatever lists
    # them - metadata, required keys - has 24 possible orders)
    many = _sweep("VFive", {"factor": "t"}, {"t": {"values": [1.0, 2.0]}})
    many["parameters"] = {"addend": 0.5}
    out.append(cfg([n("VSrc", {"value": 2.0}), many, n("VSum")]))
    out.append(cfg([n("VSrc", {"value": 2.0}), n("VFive", {"gain": 1.0}), _sweep("VFive", {"bias": "t + 1.0", "factor": "t"}, {"t": {"values": [1.0]}}), n("VSum")]))
    # a sweep variable whose values are mappings (key order inside a value is cosmetic; a value is identity-bearing)
    out.append(cfg([n("VSrc", {"value": 2.0}), _sweep("VNested", {"opts": "t"}, {"t": {"values": [{"a": 1, "b": {"y": 2, "x": 1}}, {"b": 3, "a": 4}]}}), n("VSum")]))
    # run spaces
    out.append(cfg([gen.SYMBOLS[s]["node"] for s in ("src_ctx", "failif", "probe_r")], RUN_SPACES[0]))
    out.append(cfg([gen.SYMBOLS[s]["node"] for s in ("src_ctx", "two")], RUN_SPACES[1]))
    out.append(cfg([gen.SYMBOLS[s]["node"] for s in ("src_ctx", "add")], RUN_SPACES[2]))
    out.append(cfg([SWEEPS[1], n("VSum")], RUN_SPACES[0]))
    if tier == "thorough":
        # more generated programs: all valid length-3 programs over a small alphabet
        small = ["src", "srcdef", "mul3", "muldef", "two_cfg", "probe_r", "ren_r_factor", "tmpl_a", "sink", "ctxw"]
        for p in itertools.product(small, repeat=3):
            if p[0] in ("src", "srcdef") and "src" not in p[1:] and "srcdef" not in p[1:]:
                out.append(cfg([gen.SYMBOLS[s]["node"] for s in p]))
        for a, b in itertools.combinations(range(len(SWEEPS)), 2):
            out.append(cfg([SWEEPS[a], n("VSum"), n("VProbe", context_key=f"k{b}")], RUN_SPACES[(a + b) % 3]))
    return out


def write_support_files(d: str) -> None:
    import os

    with open(os.path.join(d, "rs.csv"), "w") as f:
        f.write("factor,other\n0.5,1\n0.75,2\n")
