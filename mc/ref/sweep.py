"""Reference sweep enumerator (from docs/source/collection_modifiers.rst and the property text)."""
from __future__ import annotations

import ast
import itertools
import math
from typing import Any, Dict, List, Optional, Sequence, Tuple


class Reject(Exception):
    pass


def materialise(spec: Any, ctx: Dict[str, Any]) -> List[Any]:
    """spec is the YAML variable spec."""
    if isinstance(spec, list):
        if not spec:
            raise Reject("empty sequence")
        return list(spec)  # docs: Sequence: [v1, v2, ...]
    if "values" in spec:
        if not spec["values"]:
            raise Reject("empty sequence")
        return list(spec["values"])
    if "from_context" in spec:
        k = spec["from_context"]
        if k not in ctx:
            raise Reject("from_context key missing")
        v = ctx[k]
        if isinstance(v, (str, bytes)) or not isinstance(v, (list, tuple)):
            raise Reject("from_context value is not a non-string sequence")
        if not v:
            raise Reject("from_context value is empty")
        return list(v)
    lo, hi, n = float(spec["lo"]), float(spec["hi"]), int(spec["steps"])
    endpoint = spec.get("endpoint", True)
    scale = spec.get("scale", "linear")
    if n <= 0:
        raise Reject("steps must be positive")
    div = (n - 1) if endpoint else n
    if scale == "linear":
        if n == 1:
            return [lo]
        return [lo + (hi - lo) * i / div for i in range(n)]
    if lo <= 0 or hi <= 0:
        raise Reject("log scale requires positive bounds")
    if n == 1:
        return [lo]
    return [lo * (hi / lo) ** (i / div) for i in range(n)]


def steps(seqs: Dict[str, List[Any]], mode: str, broadcast: bool) -> List[Dict[str, Any]]:
    names = sorted(seqs)
    if mode == "combinatorial":
        return [dict(zip(names, combo)) for combo in itertools.product(*[seqs[n] for n in names])]  # rightmost fastest
    lens = {len(v) for v in seqs.values()}
    if len(lens) > 1 and not broadcast:
        raise Reject("by_position with unequal lengths")
    m = max(lens)
    return [{n: seqs[n][i % len(seqs[n])] for n in names} for i in range(m)]


_BIN = {ast.Add: lambda a, b: a + b, ast.Sub: lambda a, b: a - b, ast.Mult: lambda a, b: a * b, ast.Div: lambda a, b: a / b,
        ast.FloorDiv: lambda a, b: a // b, ast.Mod: lambda a, b: a % b, ast.Pow: lambda a, b: a ** b}
_FUN = {"abs": abs, "min": min, "max": max, "round": round, "float": float, "int": int, "str": str, "bool": bool}


def evaluate(expr: str, env: Dict[str, Any]) -> Any:
    def ev(n):
        if isinstance(n, ast.Constant):
            return n.value
        if isinstance(n, ast.Name):
            if n.id not in env:
                raise Reject(f"unknown variable {n.id}")
            return env[n.id]
        if isinstance(n, ast.BinOp):
            return _BIN[type(n.op)](ev(n.left), ev(n.right))
        if isinstance(n, ast.UnaryOp):
            v = ev(n.operand)
            return -v if isinstance(n.op, ast.USub) else +v
        if isinstance(n, ast.Call):
            return _FUN[n.func.id](*[ev(a) for a in n.args])
        if isinstance(n, ast.IfExp):
            return ev(n.body) if ev(n.test) else ev(n.orelse)
        raise Reject(f"unsupported syntax {type(n).__name__}")

    return ev(ast.parse(expr, mode="eval").body)


def close(a: Any, b: Any, rel: float = 1e-9) -> bool:
    if isinstance(a, (list, tuple)) and isinstance(b, (list, tuple)):
        return len(a) == len(b) and all(close(x, y, rel) for x, y in zip(a, b))
    if isinstance(a, (int, float)) and isinstance(b, (int, float)) and not isinstance(a, bool) and not isinstance(b, bool):
        if a != a or b != b:
            return a != a and b != b  # NaN matches NaN
        if a in (math.inf, -math.inf) or b in (math.inf, -math.inf):
            return a == b
        return math.isclose(float(a), float(b), rel_tol=rel, abs_tol=1e-12)
    return a == b
