"""Environment grid: every property module's environment-independent observations, in every environment of an explicit alphabet.

None of the properties is allowed to depend on the process the code happens to run in.  The checks themselves run in one pinned
environment (PYTHONHASHSEED=0, the sandbox's TZ / locale / cwd, the main thread of a fresh process), so a dependency on the
string-hash seed, the time zone, the locale / default encoding, `python -O`, the working directory, HOME / USER, the thread the code
runs in, a forked child, the host application's logging / warnings / gc configuration or the import order would stay invisible to them.

A property module that defines

    env_cases(tier)    -> list of small JSON-serialisable cases
    env_observe(case)  -> JSON-serialisable observation that the property says is a function of the case alone

gets, for every environment E of ENVS (an explicit, enumerated alphabet; nothing is sampled), one child process that computes
[env_observe(c) for c in env_cases(tier)] in E; the observations of every environment must equal those of the base environment, case
by case (`environment-dependent-result`), and no environment may make an observation fail that works in the base environment.
An observation is whatever the module's own oracle looks at (ids, outputs, verdicts, normalised traces): times, pids, absolute paths
and run ids are excluded by the module, because those legitimately differ.
"""
from __future__ import annotations

import json
import os
import subprocess
import sys
import tempfile
from concurrent.futures import ThreadPoolExecutor
from typing import Any, Dict, List, Optional, Tuple

from mc import core
from mc.core import Violation

# name -> {"env": {...}, "unset": [...], "flags": [...], "cwd": bool, "setup": in-process setup name}
ENVS: List[Dict[str, Any]] = [
    {"name": "base"},
    {"name": "base-again"},  # the same environment twice: an observation that differs here is not a function of the case at all
    {"name": "hashseed-1", "env": {"PYTHONHASHSEED": "1"}},
    {"name": "hashseed-4242", "env": {"PYTHONHASHSEED": "4242"}},
    {"name": "hashseed-random", "env": {"PYTHONHASHSEED": "random"}},
    {"name": "tz-east", "env": {"TZ": "IST-5:30"}},
    {"name": "tz-west", "env": {"TZ": "PST8PDT"}},
    {"name": "tz-dateline", "env": {"TZ": "XXX-13:45"}},
    {"name": "tz-west-fixed", "env": {"TZ": "PST8"}},
    {"name": "tz-dst-all-year", "env": {"TZ": "XST8XDT,J1/0,J365/23"}},  # daylight-saving time in force: time.timezone is not the current offset
    {"name": "locale-c", "env": {"LANG": "C", "LC_ALL": "C", "PYTHONUTF8": "0", "PYTHONCOERCECLOCALE": "0"}},
    {"name": "locale-utf8mode", "env": {"PYTHONUTF8": "1", "LANG": "tr_TR.UTF-8"}},
    {"name": "optimize", "flags": ["-O"]},
    {"name": "optimize2", "flags": ["-OO"]},
    {"name": "cwd-elsewhere", "cwd": True},
    {"name": "no-home", "unset": ["HOME", "USER", "LOGNAME"], "env": {"COLUMNS": "20", "NO_COLOR": "1", "TERM": "dumb"}},
    {"name": "thread", "setup": "thread"},
    {"name": "daemon-thread", "setup": "daemon-thread"},
    {"name": "forked-child", "setup": "fork"},
    {"name": "second-use", "setup": "second"},  # the whole case list was already observed once in this process
    {"name": "reverse-order", "setup": "reverse"},  # cases observed last to first: an observation must not depend on what ran before it
    {"name": "gc-off", "setup": "gc-off"},
    {"name": "gc-eager", "setup": "gc-eager"},
    {"name": "host-logging-debug", "setup": "logging-debug"},
    {"name": "host-logging-off", "setup": "logging-off"},
    {"name": "framework-logger-debug", "setup": "semantiva-debug"},  # the framework's own logger switched to DEBUG (what `-v` does)
    {"name": "warnings-always", "setup": "warnings-always"},
    {"name": "warnings-as-errors", "setup": "warnings-error"},  # the host application promotes warnings to errors (after its imports)
    {"name": "preimported", "setup": "preimport"},
    {"name": "low-recursion", "setup": "recursion"},
    {"name": "dev-mode", "flags": ["-X", "dev"]},
    {"name": "isolated-io", "setup": "stdio"},  # stdout / stderr are not ttys and are block-buffered pipes; stdin is closed
    {"name": "no-stdout", "setup": "no-stdout"},  # sys.stdout is None (cron with >&-, a service manager that closes fd 1)
    {"name": "no-stdio", "setup": "no-stdio"},  # sys.stdout and sys.stderr are None (a daemonised worker, pythonw)
    {"name": "stdout-replaced-per-observation", "setup": "swap-stdout"},  # the host captures output per call (redirect_stdout)
]


def _setup(name: Optional[str]) -> None:
    if name in (None, "thread", "daemon-thread", "fork", "second", "reverse"):
        return
    if name == "gc-off":
        import gc

        gc.disable()
    elif name == "gc-eager":
        import gc

        gc.set_threshold(7, 2, 2)  # a collection every few allocations, full ones every 28 (threshold 1,1,1 costs minutes)
    elif name == "logging-debug":
        import io
        import logging

        logging.basicConfig(level=logging.DEBUG, stream=io.StringIO(), force=True)
        logging.getLogger().setLevel(logging.DEBUG)
    elif name == "logging-off":
        import logging

        logging.disable(logging.CRITICAL)
    elif name in ("semantiva-debug", "warnings-error", "no-stdout", "no-stdio", "swap-stdout"):
        pass  # after the framework is imported: see _post_import
    elif name == "warnings-always":
        import warnings

        warnings.simplefilter("always")
    elif name == "preimport":
        for m in ("numpy", "yaml", "json", "decimal", "fractions", "multiprocessing", "asyncio", "semantiva.examples.test_utils",
                  "semantiva.trace.aggregation.aggregator", "semantiva.execution.job_queue.worker", "semantiva.inspection.reporter",
                  "semantiva.contracts.expectations", "semantiva.cli"):
            try:
                __import__(m)
            except Exception:
                pass
    elif name == "recursion":
        sys.setrecursionlimit(400)
    elif name == "stdio":
        try:
            sys.stdin.close()
        except Exception:
            pass
    else:
        raise AssertionError(name)


def _post_import(name: Optional[str]) -> None:
    """Host configuration applied after the framework was imported (importing it resets its logger's level)."""
    import io
    import logging

    if name == "warnings-error":
        import warnings

        warnings.simplefilter("error")
    if name in ("no-stdout", "no-stdio"):
        sys.stdout = None
    if name == "no-stdio":
        sys.stderr = None
    if name in ("logging-debug", "semantiva-debug"):
        from mc import harness

        harness.quiet = lambda: None  # the checks silence logging globally (logging.disable); here the host wants to hear everything
        logging.disable(logging.NOTSET)
        lg = logging.getLogger("Semantiva")
        lg.setLevel(logging.DEBUG)
        for h in list(lg.handlers):
            try:
                h.setLevel(logging.DEBUG)
                h.setStream(io.StringIO())
            except Exception:
                pass
        if name == "semantiva-debug":
            try:
                from semantiva.logger import Logger

                Logger(level="DEBUG")
                for h in list(logging.getLogger("Semantiva").handlers):
                    try:
                        h.setStream(io.StringIO())
                    except Exception:
                        pass
            except Exception:
                pass


def _diff(a: Any, b: Any, path: str = "") -> str:
    if type(a) is not type(b):
        return f"{path}: {a!r} vs {b!r}"
    if isinstance(a, dict):
        for k in sorted(set(a) | set(b)):
            if k not in a or k not in b:
                return f"{path}/{k}: present in only one"
            d = _diff(a[k], b[k], f"{path}/{k}")
            if d:
                return d
        return ""
    if isinstance(a, list):
        if len(a) != len(b):
            return f"{path}: lengths {len(a)} vs {len(b)}"
        for i, (x, y) in enumerate(zip(a, b)):
            d = _diff(x, y, f"{path}[{i}]")
            if d:
                return d
        return ""
    return "" if core.same(a, b) else f"{path}: {a!r} vs {b!r}"


def _observe_all(mod, cases, order=None, swap_stdout: bool = False) -> List[Any]:
    out: List[Any] = [None] * len(cases)
    for i in (order if order is not None else range(len(cases))):
        try:
            if swap_stdout:
                import contextlib
                import io

                with contextlib.redirect_stdout(io.StringIO()):
                    out[i] = core.jsonable(mod.env_observe(cases[i]))
                continue
            out[i] = core.jsonable(mod.env_observe(cases[i]))
        except BaseException as exc:  # an observation that raises is itself an observation
            out[i] = {"__raised__": type(exc).__name__, "text": str(exc)[:300]}
    return out


def child_main(argv: List[str]) -> int:
    """python -m mc.envgrid <module> <tier> <setup|-> <outfile> [<case index>]"""
    import importlib

    modname, tier, setup, outfile = argv[:4]
    only = int(argv[4]) if len(argv) > 4 else None
    setup = None if setup == "-" else setup
    _setup(setup)
    mod = importlib.import_module(modname)
    import semantiva  # noqa: F401

    with open(os.environ["VERIF_ENVGRID_CASES"]) as fh:
        cases = json.load(fh)  # computed once, by the parent: every environment observes the very same cases
    _post_import(setup)
    idx = list(range(len(cases))) if only is None else [only]
    box: Dict[str, Any] = {}

    def work():
        box["obs"] = _observe_all(mod, cases, list(reversed(idx)) if setup == "reverse" else idx, swap_stdout=(setup == "swap-stdout"))

    if setup in ("thread", "daemon-thread"):
        import threading

        t = threading.Thread(target=work, name="host-worker-7", daemon=(setup == "daemon-thread"))
        t.start()
        t.join()
    elif setup == "second":
        work()
        work()
    elif setup == "fork":
        _observe_all(mod, cases, idx[:1])  # the parent has used the framework before forking
        r, w = os.pipe()
        pid = os.fork()
        if pid == 0:
            os.close(r)
            try:
                work()
                data = json.dumps(box["obs"]).encode()
            except BaseException as exc:
                data = json.dumps({"__fork_failed__": repr(exc)}).encode()
            with os.fdopen(w, "wb") as fh:
                fh.write(data)
            os._exit(0)
        os.close(w)
        with os.fdopen(r, "rb") as fh:
            data = fh.read()
        os.waitpid(pid, 0)
        box["obs"] = json.loads(data.decode())
    else:
        work()
    with open(outfile, "w") as fh:
        json.dump(box["obs"], fh)
    return 0


def _spawn(modname: str, tier: str, e: Dict[str, Any], scratch: str, only: Optional[int] = None) -> Tuple[str, Any]:
    env = dict(os.environ)
    env.update(e.get("env", {}))
    for k in e.get("unset", []):
        env.pop(k, None)
    if "PYTHONHASHSEED" not in e.get("env", {}):
        env["PYTHONHASHSEED"] = "0"
    env["PYTHONPATH"] = os.pathsep.join([core.VERIF, os.path.realpath(core.REPO)] + [p for p in env.get("PYTHONPATH", "").split(os.pathsep) if p])
    cwd = os.getcwd()
    if e.get("cwd"):
        env["VERIF_ENVGRID_CWD"] = "odd"
    out = os.path.join(scratch, f"{e['name']}{'' if only is None else '-' + str(only)}.json")
    env["VERIF_ENVGRID_CASES"] = os.path.join(scratch, "cases.json")
    argv = [sys.executable, *e.get("flags", []), "-m", "mc.envgrid", modname, tier, e.get("setup") or "-", out] + ([str(only)] if only is not None else [])
    try:
        p = subprocess.run(argv, env=env, cwd=cwd, capture_output=True, text=True, timeout=900, stdin=subprocess.DEVNULL)
    except subprocess.TimeoutExpired:
        return e["name"], {"__child_failed__": "timeout"}
    if p.returncode != 0 or not os.path.exists(out):
        return e["name"], {"__child_failed__": (p.stderr or p.stdout).strip()[-600:]}
    with open(out) as fh:
        return e["name"], json.load(fh)


def run(mod, tier: str) -> Tuple[Dict[str, Any], List[Violation]]:
    cases = mod.env_cases(tier)
    modname = mod.__name__
    scratch = tempfile.mkdtemp(prefix="envgrid_")
    with open(os.path.join(scratch, "cases.json"), "w") as fh:
        json.dump(core.jsonable(cases), fh)
    skip: Dict[str, str] = dict(getattr(mod, "ENV_SKIP", {}))  # environment name -> why the property does not speak about it
    envs = [e for e in ENVS if e["name"] not in skip]
    with ThreadPoolExecutor(min(len(envs), core.NPROC)) as ex:
        results = dict(ex.map(lambda e: _spawn(modname, tier, e, scratch), envs))
    base = results["base"]
    viols: List[Violation] = []
    if isinstance(base, dict):
        raise RuntimeError(f"environment grid: base environment child failed: {base}")
    if len(base) != len(cases):
        raise RuntimeError("environment grid: the child did not observe the parent's case list")
    compared = 0
    for e in envs[1:]:
        got = results[e["name"]]
        if isinstance(got, dict):
            viols.append(Violation(f"environment-breaks-process:{e['name']}", f"in environment {e['name']} the observation process failed: {got}",
                                   {"kind": "envgrid", "env": e["name"], "index": None}))
            continue
        for i, (a, b) in enumerate(zip(base, got)):
            compared += 1
            if not core.same(a, b):
                viols.append(Violation(f"environment-dependent-result:{e['name']}",
                                       f"case {json.dumps(core.jsonable(cases[i]))[:300]}: observation in environment '{e['name']}' differs from the base environment: "
                                       f"{_diff(a, b)[:500]}",
                                       {"kind": "envgrid", "env": e["name"], "index": i}))
                break  # one case per environment is enough; the replay names it
    raised = sum(1 for o in base if isinstance(o, dict) and "__raised__" in o)
    cov = {"environments": [e["name"] for e in envs], "environments_not_applicable": skip, "cases": len(cases), "observations_compared": compared, "base_observations_that_raise": raised,
           "distinct_base_observations": len({json.dumps(o, sort_keys=True, default=repr) for o in base})}
    return cov, viols


def replay(mod, case) -> List[Violation]:
    e = next(x for x in ENVS if x["name"] == case["env"])
    scratch = tempfile.mkdtemp(prefix="envgrid_")
    tier = case.get("tier", "quick")
    only = case.get("index")
    with open(os.path.join(scratch, "cases.json"), "w") as fh:
        json.dump(core.jsonable(mod.env_cases(tier)), fh)
    # order- and history-dependent environments need the whole list
    whole = e.get("setup") in ("second", "reverse", "fork") or only is None
    _, base = _spawn(mod.__name__, tier, ENVS[0], scratch, None if whole else only)
    _, got = _spawn(mod.__name__, tier, e, scratch, None if whole else only)
    if isinstance(got, dict):
        return [Violation(f"environment-breaks-process:{e['name']}", f"in environment {e['name']} the observation process failed: {got}", case)]
    for i, (a, b) in enumerate(zip(base, got)):
        if (only is None or i == only) and not core.same(a, b):
            return [Violation(f"environment-dependent-result:{e['name']}", f"case #{i}: {str(a)[:300]} (base) vs {str(b)[:300]} ({e['name']})", case)]
    return []


if __name__ == "__main__":
    sys.exit(child_main(sys.argv[1:]))


# ---------------------------------------------------------------------------------------------
# helpers for the property modules' env_cases / env_observe

_SCRATCH: List[Optional[str]] = [None]


def scratch() -> str:
    """One scratch directory per observing process, entered like the checks do.  In the 'cwd-elsewhere' environment it has a space and
    a non-ASCII character in its name and is entered through a symbolic link."""
    if _SCRATCH[0] is None:
        from mc import harness

        harness.quiet()
        d = harness.scratch_dir()
        if os.environ.get("VERIF_ENVGRID_CWD") == "odd":
            real = os.path.join(d, "an other dir \u00e9")
            os.makedirs(real, exist_ok=True)
            link = os.path.join(d, "link")
            if not os.path.exists(link):
                os.symlink(real, link)
            d = link
            harness._SCRATCH[0] = d  # the module's own harness.enter_scratch() / clear_dir() now work in the odd directory too
        os.chdir(d)
        _SCRATCH[0] = d
    else:
        os.chdir(_SCRATCH[0])
    return _SCRATCH[0]


def pick(items: List[Any], n: int) -> List[Any]:
    """n items spread evenly over the (deterministically ordered) list: an enumerated selection, not a sample."""
    items = list(items)
    if len(items) <= n:
        return items
    step = len(items) / float(n)
    return [items[int(i * step)] for i in range(n)]


def norm(obj: Any, *prefixes: str) -> Any:
    """JSON form of an observation with process-specific path prefixes (the scratch directory) replaced."""
    s = json.dumps(core.jsonable(obj), sort_keys=True, default=repr)
    if prefixes and prefixes[0] and prefixes[0].endswith("link"):
        prefixes = prefixes + (os.path.dirname(prefixes[0]),)
    for p in sorted((p for p in prefixes if p), key=len, reverse=True):
        s = s.replace(json.dumps(p)[1:-1], "<scratch>")
        s = s.replace(json.dumps(os.path.realpath(p))[1:-1], "<scratch>")
    return json.loads(s)
