"""C18 — repeated execution leaves no per-run residue in the process.

A state machine whose only transition is "run once more"; abstract state = (length of every component
registry list, census of gc-tracked objects by type after gc.collect()).  For every pipeline x way of
repeating, the abstract state observed inside run 50, run 150 and run 450 must be the same (fixed point
after warm-up).  The census is taken by a pass-through processor inside the pipeline, so the four ways of
repeating are observed identically.
"""
from __future__ import annotations

import copy
import os
import subprocess
import sys
import json
from typing import Any, Dict, List, Optional, Tuple

from mc import cli, core, gen, harness
from mc.core import Result, Violation

AT = (50, 150, 450)

PIPES: Dict[str, List[str]] = {
    "plain-op": ["src", "mul3"],
    "context-default": ["srcdef", "muldef", "two_cfg"],
    "probe": ["src", "probe_r", "gainprobe"],
    "context-processors": ["src", "probe_r", "tmpl_a", "ren_r_factor", "del_a"],
    "payload-source-sink": ["paysrc", "ctxw", "sink", "paysink"],
    "slicers": ["sweep_src", "slice_muldef", "slice_probe", "sum"],
    "sweep-op": ["src", "sweep_op", "sum"],
    "file-sink": ["src", "sink_cfg"],
    # every run FAILS after the census point (unresolvable parameter): error paths must not leave residue either
    "failing": ["src", "<census>", "mul"],
    # a processor class bound to its output key when the node is built (with_context_key generates a subclass)
    "context-key-bound": ["src", "mul3", "<census>", {"processor": "ModelFittingContextProcessor",
                                                       "parameters": {"fitting_model": "model:PolynomialFittingModel:degree=1", "context_key": "fit.coefficients"}}],
    "keyword-only": ["src", "kwmul3", "kwtwo_cfg", "kwgainprobe"],
    # data-dependent branches of generated context processors: the keys are present with the value None (rename / delete then only warn)
    "context-none": ["src", "ren_r_factor", "del_a", "muldef"],
    # beyond the small scope: every run puts fresh containers of 40 items into the context (a sweep's <var>_values, a sliced probe's list)
    "wide-values": ["sweep_src40", "slice_mul3", "slice_probe", "sum", "muldef"],
}
PIPE_CTX: Dict[str, Dict[str, Any]] = {"context-default": {"factor": 5.0}, "context-key-bound": {"x_values": [0.0, 1.0, 2.0], "y_values": [1.0, 3.0, 7.0]}, "keyword-only": {"factor": 5.0}, "context-none": {"r": None, "a": None}}
WAYS = ["reused-pipeline", "fresh-pipelines", "cli-launch", "queue-worker", "reused-pipeline-traced", "fresh-pipelines-traced", "cli-launch-traced"]


def nodes_for(pipe: str) -> List[dict]:
    if "<census>" in PIPES[pipe]:
        return [{"processor": "VCensus"} if s == "<census>" else copy.deepcopy(s if isinstance(s, dict) else gen.SYMBOLS[s]["node"]) for s in PIPES[pipe]]
    nodes = [copy.deepcopy(gen.SYMBOLS[s]["node"]) for s in PIPES[pipe]]
    # the census processor needs float data: place it where the data is a float
    kinds = [gen.SYMBOLS[s]["kind"] for s in PIPES[pipe]]
    pos = len(nodes)
    if pipe == "slicers":
        pos = len(nodes)  # after sum
    nodes.insert(pos, {"processor": "VCensus"})
    return nodes


_CHILD = r"""
import json, sys, os, logging
logging.disable(logging.CRITICAL)
from mc.props import c18
print(json.dumps(c18.run_way(sys.argv[1], sys.argv[2], int(sys.argv[3]))))
"""


def run_way(pipe: str, way: str, n: int) -> dict:
    """Executed in a fresh child process: repeat the pipeline n times in the given way, return the snapshots."""
    from semantiva.context_processors import ContextType
    from semantiva.pipeline import Payload, Pipeline
    from verif_lib import components as C

    harness.quiet()
    scratch = harness.enter_scratch()
    cfg = harness.load_config({"extensions": ["verif_lib"], "pipeline": {"nodes": nodes_for(pipe)}})
    at = tuple(a for a in AT if a <= n)
    C.census_reset(at)
    C.LOG_ON[0] = False  # the harness's own execution log must not count as residue
    failing = pipe == "failing"

    def once(p):
        try:
            p.process(Payload(None, ContextType(copy.deepcopy(PIPE_CTX.get(pipe, {})))))
        except KeyError:
            if not failing:
                raise

    if way == "reused-pipeline":
        p = Pipeline(cfg.nodes)
        for _ in range(n):
            once(p)
    elif way == "fresh-pipelines":
        for _ in range(n):
            once(Pipeline(cfg.nodes))
    elif way == "reused-pipeline-traced":
        from semantiva.trace.drivers.jsonl import JsonlTraceDriver

        p = Pipeline(cfg.nodes, trace=JsonlTraceDriver(os.path.join(scratch, "tdir"), detail="all"))
        for _ in range(n):
            once(p)
    elif way == "fresh-pipelines-traced":
        from semantiva.trace.drivers.jsonl import JsonlTraceDriver

        for i in range(n):
            once(Pipeline(cfg.nodes, trace=JsonlTraceDriver(os.path.join(scratch, "tfiles", f"t{i % 7}.ser.jsonl"))))
    elif way in ("cli-launch", "cli-launch-traced"):
        y = {"extensions": ["verif_lib"], "pipeline": {"nodes": nodes_for(pipe)},
             **({"trace": {"driver": "jsonl", "output_path": os.path.join(scratch, "tdir")}} if way.endswith("-traced") else {}),
             "run_space": {"max_runs": n + 1, "blocks": [{"mode": "by_position", "context": {"zz": [float(i) for i in range(n)],
                                                                                        **{k: [copy.deepcopy(v) for _ in range(n)] for k, v in PIPE_CTX.get(pipe, {}).items()}}}]}}
        yp = cli.write_yaml(os.path.join(scratch, "p.yaml"), y)
        res = cli.run_cli(["run", yp, "-q"])
        if res.code != 0:
            return {"error": f"cli exit {res.code}: {res.err[-300:]}"}
    elif way == "queue-worker":
        import threading

        from semantiva.execution.executor.executor import SequentialSemantivaExecutor
        from semantiva.execution.job_queue.queue_orchestrator import QueueSemantivaOrchestrator
        from semantiva.execution.job_queue.worker import worker_loop
        from semantiva.execution.transport.in_memory import InMemorySemantivaTransport
        from semantiva.logger import Logger

        tr = InMemorySemantivaTransport()
        stop = threading.Event()
        log = Logger(level="CRITICAL")
        orch = QueueSemantivaOrchestrator(tr, stop_event=stop, logger=log)
        mt = threading.Thread(target=orch.run_forever, daemon=True)
        wt = threading.Thread(target=worker_loop, args=(0, tr, SequentialSemantivaExecutor(), stop), kwargs={"logger": log, "poll_interval": 0.001}, daemon=True)
        mt.start()
        wt.start()
        for i in range(n):
            f = orch.enqueue(cfg.nodes, data=None, context=ContextType(copy.deepcopy(PIPE_CTX.get(pipe, {}))), return_future=True)
            if failing:
                if f.exception(timeout=60) is None:
                    return {"error": "a failing job's Future completed without an exception"}
            else:
                f.result(timeout=60)
            del f
        stop.set()
        mt.join(timeout=5)
        wt.join(timeout=5)
    else:
        raise ValueError(way)
    snaps = C.CENSUS["snapshots"]
    return {"snapshots": {str(k): json.loads(v) for k, v in snaps.items()}, "runs": C.CENSUS["count"]}


def child(pipe: str, way: str, n: int) -> dict:
    env = dict(os.environ)
    p = subprocess.run([sys.executable, "-c", _CHILD, pipe, way, str(n)], capture_output=True, text=True, env=env, timeout=1200)
    if p.returncode != 0:
        return {"error": f"child exit {p.returncode}: {p.stderr[-600:]}"}
    return json.loads(p.stdout.strip().splitlines()[-1])


def compare(pipe: str, way: str, res: dict) -> List[Tuple[str, str, dict]]:
    out: List[Tuple[str, str, dict]] = []
    case = {"pipe": pipe, "way": way}
    if "error" in res:
        out.append(("harness-run-failed", f"{pipe}/{way}: {res['error']}", case))
        return out
    snaps = res["snapshots"]
    ks = sorted(snaps, key=int)
    if len(ks) < 2:
        out.append(("census-missing", f"{pipe}/{way}: snapshots at {ks} only ({res.get('runs')} runs)", case))
        return out
    a = snaps[ks[0]]
    for k in ks[1:]:
        b = snaps[k]
        reg_growth = {c: b["registry"].get(c, 0) - a["registry"].get(c, 0) for c in set(a["registry"]) | set(b["registry"])}
        reg_growth = {c: d for c, d in reg_growth.items() if d != 0}
        if reg_growth:
            per_run = {c: round(d / (int(k) - int(ks[0])), 3) for c, d in reg_growth.items()}
            cats = sorted(reg_growth)
            out.append((f"registry-growth|{way}", f"{pipe}/{way}: component registry grows between run {ks[0]} and run {k}: {reg_growth} (per run: {per_run})",
                        {**case, "categories": cats}))
        dm = b.get("transport_messages", 0) - a.get("transport_messages", 0)
        dc = b.get("transport_channels", 0) - a.get("transport_channels", 0)
        runs_between = int(k) - int(ks[0])
        if dm > 0:
            # (the residue is identified by who holds the transport — a reused Pipeline, a CLI launch — with or without a trace driver)
            out.append((f"transport-messages-accumulate|{way.replace('-traced', '')}", f"{pipe}/{way}: undrained messages in in-memory transports grow from {a.get('transport_messages')} to "
                        f"{b.get('transport_messages')} between run {ks[0]} and run {k} ({dm / runs_between:.2f} per run)", case))
        if dc > 0:
            out.append((f"transport-channels-accumulate|{way.replace('-traced', '')}", f"{pipe}/{way}: channels kept by in-memory transports grow from {a.get('transport_channels')} to "
                        f"{b.get('transport_channels')} between run {ks[0]} and run {k} ({dc / runs_between:.2f} per run)", case))
        obj_growth = {t: b["objects"].get(t, 0) - a["objects"].get(t, 0) for t in set(a["objects"]) | set(b["objects"])}
        # growth "with the number of runs": at least one object per 20 runs of some type; a free-running master / worker
        # pair can be caught at slightly different points, which moves single transient objects (tuples, frames) either way
        floor = max(3, runs_between // 20)
        obj_growth = {t: d for t, d in obj_growth.items() if d >= floor}
        if obj_growth:
            top = dict(sorted(obj_growth.items(), key=lambda kv: -abs(kv[1]))[:8])
            out.append((f"object-growth|{way}", f"{pipe}/{way}: live gc-tracked objects differ between run {ks[0]} and run {k}: total {b['objects_total'] - a['objects_total']:+d}; by type {top}",
                        {**case, "types": sorted(obj_growth)[:20]}))
        break  # one comparison per finding class is enough; the last snapshot is checked below
    last = snaps[ks[-1]]
    if len(ks) > 2 and (last["registry"] != snaps[ks[1]]["registry"]) != (snaps[ks[1]]["registry"] != a["registry"]):
        out.append((f"registry-growth|{way}", f"{pipe}/{way}: registry changes between run {ks[1]} and run {ks[-1]}", case))
    return out


def _worker(chunk):
    out = []
    for pipe, way, n in chunk:
        res = child(pipe, way, n)
        out.append((pipe, way, res, compare(pipe, way, res)))
    return out


def check(tier: str, seed: int) -> Result:
    n = 150 if tier == "quick" else 450
    pipes = list(PIPES) if tier == "thorough" else ["plain-op", "context-processors", "slicers", "sweep-op", "payload-source-sink", "failing", "context-key-bound", "context-none", "wide-values"]
    traced_pipes = {"plain-op", "context-processors", "failing", "sweep-op"}
    jobs = [(p, w, n) for p in pipes for w in WAYS if not (p == "failing" and w.startswith("cli-launch")) and not (w.endswith("-traced") and p not in traced_pipes)]
    jobs = core.seeded_order(jobs, seed)
    viols: List[Violation] = []
    samples = []
    runs = 0
    states = set()
    for part in core.pmap_chunks(_worker, jobs, chunk=1):
        for pipe, way, res, v in part:
            runs += res.get("runs", 0) or 0
            for k, s in (res.get("snapshots") or {}).items():
                states.add(core.sha([pipe, way, s["registry"], s["objects_total"]]))
            for sig, msg, case in v:
                viols.append(Violation(sig, msg, case))
            if len(samples) < 3 and res.get("snapshots"):
                k0 = sorted(res["snapshots"], key=int)[0]
                samples.append({"pipe": pipe, "way": way, "at_run": int(k0), "registry": res["snapshots"][k0]["registry"],
                                "objects_total": res["snapshots"][k0]["objects_total"]})
    cov = {
        "evaluations": runs, "distinct_nontrivial": len(states),
        "rule": "%d pipelines (every node kind) x 4 ways of repeating (one reused Pipeline, fresh Pipelines, a run-space launch through the CLI, "
                "a free-running master / worker pair) x %d runs each in a fresh process; the abstract state (registry list lengths + gc census "
                "by type) is snapshotted from inside run %s by a pass-through processor and must be identical; evaluations = pipeline runs; "
                "distinct_nontrivial = distinct abstract states observed" % (len(pipes), n, "/".join(str(a) for a in AT if a <= n)),
        "samples": samples, "exhaustive": True,
    }
    return Result("exploration", cov, viols, [
        "growth is measured in counts (registered classes, gc-tracked objects by type), not bytes or time",
        "an object type counts as growing when it gains at least one object per 20 runs between two snapshots (registry lists: any gain)",
        "quick compares runs 50 and 150; thorough 50, 150 and 450",
    ])


def replay(case) -> List[Violation]:
    res = child(case["pipe"], case["way"], 150)
    return [Violation(s, m, c) for s, m, c in compare(case["pipe"], case["way"], res)]



# ---------------------------------------------------------------------------------------------
# environment grid (mc/envgrid.py): no residue per run in any process - also one without a stdout, with host logging at DEBUG, in a
# thread, in a forked child ...

def env_cases(tier: str):
    return [{"pipe": p, "way": w, "n": 150} for p, w in [("plain-op", "reused-pipeline"), ("plain-op", "fresh-pipelines"), ("sweep-op", "fresh-pipelines"),
                                                         ("context-processors", "reused-pipeline-traced"), ("plain-op", "cli-launch")]]


def env_observe(case):
    from mc import envgrid

    envgrid.scratch()
    res = run_way(case["pipe"], case["way"], case["n"])
    return {"judged": sorted({sig for sig, _, _ in compare(case["pipe"], case["way"], res)})}
