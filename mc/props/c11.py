"""C11 — sweep expressions are confined to the safe grammar.

Exhaustive enumeration of expression ASTs to depth 3 over every ast.expr subclass of the running
interpreter and every operator class, each composite class x every child position, plus an escape
corpus embedded at every position of every whitelisted composite form.  Oracle: the reference
whitelist walk of mc.ref.safegrammar (visits every child position) + audit hook during compile and
evaluation.
"""
from __future__ import annotations

import ast
import itertools
import json
import sys
import types
from typing import Any, Callable, Dict, List, Optional, Tuple

from mc import core
from mc.core import Result, Violation
from mc.ref import safegrammar as SG

NAMES = {"t", "u"}
L = ast.Load()


def N(i):
    return ast.Name(id=i, ctx=ast.Load())


def C(v):
    return ast.Constant(value=v)


def leaves_full():
    return [N("t"), N("q"), N("abs"), C(1), C(1.5), C("s"), C(None), C(True), C(b"b"), C(...), N("__builtins__")]


def leaves_small():
    return [N("t"), N("q"), C(1)]


BINOPS = [c for c in ast.operator.__subclasses__()]
UNOPS = [c for c in ast.unaryop.__subclasses__()]
BOOLOPS = [c for c in ast.boolop.__subclasses__()]
CMPOPS = [c for c in ast.cmpop.__subclasses__()]


def comp(target, it, ifs=()):
    return ast.comprehension(target=ast.Name(id=target, ctx=ast.Store()), iter=it, ifs=list(ifs), is_async=0)


def templates() -> List[Tuple[str, int, Callable[..., ast.expr]]]:
    """(label, arity, builder(children...)) — every ast.expr class, every child position."""
    T: List[Tuple[str, int, Callable[..., ast.expr]]] = []
    for op in BINOPS:
        T.append((f"BinOp.{op.__name__}", 2, lambda a, b, op=op: ast.BinOp(left=a, op=op(), right=b)))
    for op in UNOPS:
        T.append((f"UnaryOp.{op.__name__}", 1, lambda a, op=op: ast.UnaryOp(op=op(), operand=a)))
    for op in BOOLOPS:
        T.append((f"BoolOp.{op.__name__}", 2, lambda a, b, op=op: ast.BoolOp(op=op(), values=[a, b])))
        T.append((f"BoolOp3.{op.__name__}", 3, lambda a, b, c, op=op: ast.BoolOp(op=op(), values=[a, b, c])))
    for op in CMPOPS:
        T.append((f"Compare.{op.__name__}", 2, lambda a, b, op=op: ast.Compare(left=a, ops=[op()], comparators=[b])))
    T.append(("Compare.chain", 3, lambda a, b, c: ast.Compare(left=a, ops=[ast.Lt(), ast.Gt()], comparators=[b, c])))
    T.append(("Compare.chain.In", 3, lambda a, b, c: ast.Compare(left=a, ops=[ast.Lt(), ast.In()], comparators=[b, c])))
    T.append(("IfExp", 3, lambda a, b, c: ast.IfExp(test=a, body=b, orelse=c)))
    T.append(("NamedExpr", 1, lambda a: ast.NamedExpr(target=ast.Name(id="t", ctx=ast.Store()), value=a)))
    T.append(("Lambda.body", 1, lambda a: ast.Lambda(args=ast.arguments(posonlyargs=[], args=[], kwonlyargs=[], kw_defaults=[], defaults=[]), body=a)))
    T.append(("Lambda.default", 2, lambda a, b: ast.Lambda(args=ast.arguments(posonlyargs=[], args=[ast.arg(arg="z")], kwonlyargs=[], kw_defaults=[], defaults=[a]), body=b)))
    T.append(("Dict", 2, lambda a, b: ast.Dict(keys=[a], values=[b])))
    T.append(("Dict.unpack", 1, lambda a: ast.Dict(keys=[None], values=[a])))
    T.append(("Set", 2, lambda a, b: ast.Set(elts=[a, b])))
    T.append(("List", 2, lambda a, b: ast.List(elts=[a, b], ctx=ast.Load())))
    T.append(("List.starred", 1, lambda a: ast.List(elts=[ast.Starred(value=a, ctx=ast.Load())], ctx=ast.Load())))
    T.append(("Tuple", 2, lambda a, b: ast.Tuple(elts=[a, b], ctx=ast.Load())))
    T.append(("Tuple1", 1, lambda a: ast.Tuple(elts=[a], ctx=ast.Load())))
    T.append(("Tuple.starred", 2, lambda a, b: ast.Tuple(elts=[a, ast.Starred(value=b, ctx=ast.Load())], ctx=ast.Load())))
    T.append(("ListComp", 3, lambda a, b, c: ast.ListComp(elt=a, generators=[comp("z", b, [c])])))
    T.append(("SetComp", 2, lambda a, b: ast.SetComp(elt=a, generators=[comp("z", b)])))
    T.append(("GeneratorExp", 2, lambda a, b: ast.GeneratorExp(elt=a, generators=[comp("z", b)])))
    T.append(("DictComp", 3, lambda a, b, c: ast.DictComp(key=a, value=b, generators=[comp("z", c)])))
    T.append(("Await", 1, lambda a: ast.Await(value=a)))
    T.append(("Yield", 1, lambda a: ast.Yield(value=a)))
    T.append(("YieldFrom", 1, lambda a: ast.YieldFrom(value=a)))
    # calls: whitelisted name, non-whitelisted names, arbitrary callee; args, keywords, **kw, *args
    for fn in ("max", "abs", "round", "str", "getattr", "eval", "__import__", "q", "t"):
        T.append((f"Call.{fn}.args", 2, lambda a, b, fn=fn: ast.Call(func=N(fn), args=[a, b], keywords=[])))
        T.append((f"Call.{fn}.arg1", 1, lambda a, fn=fn: ast.Call(func=N(fn), args=[a], keywords=[])))
    T.append(("Call.max.keyword", 2, lambda a, b: ast.Call(func=N("max"), args=[a], keywords=[ast.keyword(arg="default", value=b)])))
    T.append(("Call.max.keyword.key", 2, lambda a, b: ast.Call(func=N("max"), args=[a], keywords=[ast.keyword(arg="key", value=b)])))
    T.append(("Call.round.keyword", 2, lambda a, b: ast.Call(func=N("round"), args=[a], keywords=[ast.keyword(arg="ndigits", value=b)])))
    T.append(("Call.max.keyword2", 3, lambda a, b, c: ast.Call(func=N("max"), args=[a], keywords=[ast.keyword(arg="default", value=b), ast.keyword(arg="key", value=c)])))
    T.append(("Call.max.kwunpack", 2, lambda a, b: ast.Call(func=N("max"), args=[a], keywords=[ast.keyword(arg=None, value=b)])))
    T.append(("Call.max.starred", 2, lambda a, b: ast.Call(func=N("max"), args=[a, ast.Starred(value=b, ctx=ast.Load())], keywords=[])))
    T.append(("Call.max.noargs.keyword", 1, lambda a: ast.Call(func=N("max"), args=[], keywords=[ast.keyword(arg="default", value=a)])))
    T.append(("Call.expr.func", 2, lambda a, b: ast.Call(func=a, args=[b], keywords=[])))
    T.append(("JoinedStr", 1, lambda a: ast.JoinedStr(values=[C("a"), ast.FormattedValue(value=a, conversion=-1, format_spec=None)])))
    T.append(("JoinedStr.conv", 1, lambda a: ast.JoinedStr(values=[ast.FormattedValue(value=a, conversion=114, format_spec=None)])))
    T.append(("JoinedStr.spec", 2, lambda a, b: ast.JoinedStr(values=[ast.FormattedValue(value=a, conversion=-1, format_spec=ast.JoinedStr(values=[ast.FormattedValue(value=b, conversion=-1, format_spec=None)]))])))
    for attr in ("real", "__class__", "__globals__"):
        T.append((f"Attribute.{attr}", 1, lambda a, attr=attr: ast.Attribute(value=a, attr=attr, ctx=ast.Load())))
    T.append(("Subscript", 2, lambda a, b: ast.Subscript(value=a, slice=b, ctx=ast.Load())))
    T.append(("Subscript.Slice", 4, lambda a, b, c, d: ast.Subscript(value=a, slice=ast.Slice(lower=b, upper=c, step=d), ctx=ast.Load())))
    T.append(("Subscript.Slice1", 2, lambda a, b: ast.Subscript(value=a, slice=ast.Slice(lower=b, upper=None, step=None), ctx=ast.Load())))
    T.append(("Subscript.tupleslice", 3, lambda a, b, c: ast.Subscript(value=a, slice=ast.Tuple(elts=[ast.Slice(lower=b, upper=None, step=None), c], ctx=ast.Load()), ctx=ast.Load())))
    return T


def covered_expr_classes(T) -> set:
    seen = set()
    for _, ar, b in T:
        node = b(*[N("t") for _ in range(ar)])
        for n in ast.walk(node):
            seen.add(type(n))
    return seen


def clone(n):
    return ast.parse(ast.unparse(n), mode="eval").body if False else _deep(n)


def _deep(n):
    import copy

    return copy.deepcopy(n)


def to_source(node: ast.expr) -> Optional[str]:
    """unparse, and require that the text re-parses to the same tree (else the case is skipped)."""
    tree = ast.Expression(body=node)
    ast.fix_missing_locations(tree)
    try:
        src = ast.unparse(tree)
        back = ast.parse(src, mode="eval")
    except (SyntaxError, ValueError, TypeError, AttributeError, RecursionError):
        return None
    if ast.dump(back) != ast.dump(tree):
        return None
    return src


# ---- audit hook (installed once per process) ---------------------------------------------------
_AUDIT: List[str] = []
_AUDIT_ON = [False]
_BAD_EVENTS = ("import", "open", "os.", "subprocess", "socket", "ctypes", "shutil", "pathlib", "object.__getattr__",
               "object.__setattr__", "object.__delattr__", "sys._getframe", "builtins.input", "code.__new__", "marshal")


def _hook(event, args):
    if _AUDIT_ON[0]:
        if event.startswith(_BAD_EVENTS):
            if event == "import" and args and str(args[0]).startswith("encodings"):
                return  # codec lookup of the whitelisted str()/bytes machinery, confined to the encodings package
            _AUDIT.append(event)


_HOOKED = [False]


def ensure_hook():
    if not _HOOKED[0]:
        sys.addaudithook(_hook)
        _HOOKED[0] = True


def find_code(fn) -> Optional[types.CodeType]:
    for cell in fn.__closure__ or ():
        try:
            v = cell.cell_contents
        except ValueError:
            continue
        if isinstance(v, types.CodeType):
            return v
    return None


# declared-variable sets: the usual two, none at all (every name is then undeclared), one of the two, and variables that
# are called like whitelisted functions
NAMESETS = {"tu": {"t", "u"}, "empty": set(), "frozen-empty": frozenset(), "t": {"t"}, "fn": {"t", "abs", "max"}}


def judge(src: str, NAMES=NAMES) -> Tuple[str, Optional[Tuple[str, str]]]:
    """Run the implementation on one expression; returns (outcome, violation or None)."""
    import warnings

    warnings.simplefilter("ignore", SyntaxWarning)
    from semantiva.utils.safe_eval import ExpressionError, ExpressionEvaluator

    ensure_hook()
    tree = ast.parse(src, mode="eval")
    reason = SG.why_unsafe(tree, NAMES)
    del _AUDIT[:]
    _AUDIT_ON[0] = True
    try:
        try:
            fn = ExpressionEvaluator().compile(src, NAMES if isinstance(NAMES, frozenset) else set(NAMES))
            outcome = "accepted"
        except ExpressionError:
            outcome = "rejected"
            fn = None
        except BaseException as exc:  # wrong exception class
            _AUDIT_ON[0] = False
            if reason is not None:
                return "wrong-exception", ("unsafe-rejected-with-wrong-exception",
                                           f"{src!r} ({reason}) raised {type(exc).__name__} instead of ExpressionError")
            return "wrong-exception", None  # safe expression that cannot be compiled: outside the claim
    finally:
        _AUDIT_ON[0] = False
    if _AUDIT:
        return outcome, ("side-effect-during-compile", f"{src!r}: audit events {sorted(set(_AUDIT))} during compile()")
    if outcome == "rejected":
        return outcome, None
    if reason is not None:
        return outcome, ("unsafe-accepted", f"{src!r} accepted although it contains {reason}")
    code = find_code(fn)
    if code is not None:
        r = SG.code_names_ok(code, NAMES)
        if r:
            return outcome, ("accepted-code-reads-foreign-names", f"{src!r}: {r}")
    # evaluate under the audit hook
    del _AUDIT[:]
    _AUDIT_ON[0] = True
    try:
        try:
            fn(**{n: 2.0 + i for i, n in enumerate(sorted(NAMES))})
        except Exception:
            pass
    finally:
        _AUDIT_ON[0] = False
    if _AUDIT:
        return outcome, ("side-effect-during-evaluation", f"{src!r}: audit events {sorted(set(_AUDIT))}")
    return outcome, None


_FACTORY: Dict[str, Any] = {}


def judge_factory(src: str) -> Optional[Tuple[str, str]]:
    """The same expression as the value of a swept parameter through the public sweep factory (the path YAML configurations take):
    what the reference whitelist refuses must not be accepted there either, and nothing may run while it is being compiled."""
    if not _FACTORY:
        import verif_lib

        verif_lib.register()
        from semantiva.data_processors.parametric_sweep_factory import ParametricSweepFactory, SequenceSpec
        from semantiva.examples.test_utils import FloatDataCollection
        from verif_lib import components as VC

        _FACTORY.update(f=ParametricSweepFactory, seq=SequenceSpec, coll=FloatDataCollection, el=VC.VSrc)
    try:
        tree = ast.parse(src, mode="eval")
    except SyntaxError:
        return None
    reason = SG.why_unsafe(tree, NAMES)
    if reason is None:
        # a safe expression over {t, u}: the YAML path accepts it for a node declaring t and u — and must refuse the SAME text for
        # a node that declares s and u instead (same domains, other names): every name must be one of the node's OWN variables
        if not any(isinstance(x, ast.Name) and x.id == "t" for x in ast.walk(tree)):
            return None
        from semantiva.pipeline.node_preprocess import preprocess_node_config

        def node(vars_):
            return {"processor": "VSrc", "derive": {"parameter_sweep": {"parameters": {"value": src}, "variables": vars_, "collection": "FloatDataCollection"}}}
        try:
            preprocess_node_config(node({"t": [1.0], "u": [2.0]}))
        except Exception:
            return None  # not accepted on this path (e.g. a value the source cannot take): nothing to compare
        try:
            preprocess_node_config(node({"s": [1.0], "u": [2.0]}))
        except Exception:
            return None
        return ("undeclared-variable-accepted-after-history", f"{src!r} was accepted for a node whose variables are s and u (t is not declared there) after the same text had been "
                "compiled for a node declaring t and u")
    ensure_hook()
    del _AUDIT[:]
    _AUDIT_ON[0] = True
    accepted = True
    try:
        try:
            _FACTORY["f"].create(element=_FACTORY["el"], element_kind="DataSource", collection_output=_FACTORY["coll"],
                                 vars={"t": _FACTORY["seq"]([1.0]), "u": _FACTORY["seq"]([2.0])}, parametric_expressions={"value": src})
        except BaseException:  # noqa: BLE001 - any refusal counts
            accepted = False
    finally:
        _AUDIT_ON[0] = False
    if accepted:
        return ("unsafe-accepted-through-sweep-factory", f"{src!r} ({reason}) is accepted as a swept parameter expression by ParametricSweepFactory.create")
    if _AUDIT:
        return ("side-effect-during-compile|sweep-factory", f"{src!r}: audit events {sorted(set(_AUDIT))} while the factory compiled it")
    return None


def _worker(chunk):
    out = {"n": 0, "accepted": 0, "rejected": 0, "other": 0, "viol": [], "by_label": {}}
    for item in chunk:
        label, src = item[0], item[1]
        if len(item) > 2:
            o, v = judge(src, NAMESETS[item[2]])
            if v:
                v = (v[0] + "|variables=" + item[2], f"declared variables {sorted(NAMESETS[item[2]])}: {v[1]}")
        else:
            o, v = judge(src)
            if v is None:
                v = judge_factory(src)
        out["n"] += 1
        out["accepted" if o == "accepted" else "rejected" if o == "rejected" else "other"] += 1
        bl = out["by_label"].setdefault(label.split(".")[0], [0, 0])
        bl[0 if o == "accepted" else 1] += 1
        if v:
            out["viol"].append((v[0], v[1], label, src, item[2] if len(item) > 2 else None))
    return out


CORPUS = [
    "__import__('os').getcwd()", "__import__('os').system('true')", "open('/etc/passwd').read()",
    "().__class__.__bases__[0].__subclasses__()", "t.__class__", "t.real", "(lambda: 1)()", "[z for z in (1,)]",
    "getattr(t, '__class__')", "eval('1')", "exec('1')", "globals()", "locals()", "vars()", "__builtins__",
    "f'{t.__class__}'", "(t := 1)", "t[0]", "{**{}}", "{1: 2}", "{1}", "[1]", "type(t)", "compile('1', 'a', 'eval')",
    "str.__subclasses__()", "abs.__self__", "max.__self__.__import__('os')", "print(1)", "breakpoint()", "help()",
    "(yield)", "t if t else __import__('os')", "t @ t", "t << 1", "~t", "not t", "t is t", "t in (1,)",
    "''.join(('a',))", "str().format()", "b'x'", "...", "int.from_bytes(b'a', 'big')", "*t,", "t.__init__.__globals__",
]


def corpus_contexts() -> List[Tuple[str, Callable[[str], str]]]:
    return [
        ("bare", lambda e: e),
        ("BinOp.left", lambda e: f"({e}) + t"), ("BinOp.right", lambda e: f"t * ({e})"),
        ("UnaryOp", lambda e: f"-({e})"),
        ("BoolOp.0", lambda e: f"({e}) and t"), ("BoolOp.1", lambda e: f"t or ({e})"),
        ("Compare.left", lambda e: f"({e}) < t"), ("Compare.right", lambda e: f"t == ({e})"),
        ("Compare.chain", lambda e: f"t < u < ({e})"),
        ("IfExp.test", lambda e: f"t if ({e}) else u"), ("IfExp.body", lambda e: f"({e}) if t else u"),
        ("IfExp.orelse", lambda e: f"t if u else ({e})"),
        ("Call.arg0", lambda e: f"max(({e}), t)"), ("Call.arg1", lambda e: f"max(t, ({e}))"),
        ("Call.keyword", lambda e: f"max(t, 1, default=({e}))"), ("Call.keyword.key", lambda e: f"max(t, 1, key=({e}))"),
        ("Call.keyword.only", lambda e: f"round(number=({e}))"),
        ("Call.kwunpack", lambda e: f"max(t, 1, **({e}))"), ("Call.starred", lambda e: f"max(t, *({e}))"),
        ("Tuple.0", lambda e: f"(({e}), t)"), ("Tuple.1", lambda e: f"(t, ({e}))"),
        ("Call.func", lambda e: f"({e})(t)"),
    ]


def build_cases(tier: str):
    T = templates()
    cases: List[Tuple[str, str]] = []
    skipped = 0
    full = leaves_full()
    small = leaves_small()
    # depth 2: full product of children over the full leaf pool
    depth2_small: List[ast.expr] = []
    for label, ar, b in T:
        pool = full if ar <= 2 else small + [C("s"), N("abs")]
        for kids in itertools.product(pool, repeat=ar):
            node = b(*[_deep(k) for k in kids])
            src = to_source(node)
            if src is None:
                skipped += 1
                continue
            cases.append(("d2:" + label, src))
    for label, ar, b in T:
        for kids in itertools.product(small, repeat=ar):
            if ar > 2 and len(set(ast.dump(k) for k in kids)) > 2:
                continue
            node = b(*[_deep(k) for k in kids])
            if to_source(node) is not None:
                depth2_small.append(node)
    # dedupe fillers
    seen = set()
    fillers = []
    for n in depth2_small:
        d = ast.dump(n)
        if d not in seen:
            seen.add(d)
            fillers.append(n)
    # depth 3: every template x every child position filled with every depth-2 tree, others hold 't'
    for label, ar, b in T:
        for pos in range(ar):
            for f in fillers:
                kids = [N("t") for _ in range(ar)]
                kids[pos] = _deep(f)
                src = to_source(b(*kids))
                if src is None:
                    skipped += 1
                    continue
                cases.append((f"d3:{label}@{pos}", src))
    if tier == "thorough":
        # depth 3, two holes: every template of arity>=2, every pair of positions, fillers x fillers (40-tree pool)
        pool40 = fillers[:: max(1, len(fillers) // 40)][:40]
        for label, ar, b in T:
            if ar < 2:
                continue
            for p1, p2 in itertools.combinations(range(ar), 2):
                for f1 in pool40:
                    for f2 in pool40:
                        kids = [N("t") for _ in range(ar)]
                        kids[p1], kids[p2] = _deep(f1), _deep(f2)
                        src = to_source(b(*kids))
                        if src is None:
                            skipped += 1
                            continue
                        cases.append((f"d3x2:{label}@{p1},{p2}", src))
    # escape corpus at every position of every whitelisted composite, nested to depth 2
    ctxs = corpus_contexts()
    for c in CORPUS:
        for l1, f1 in ctxs:
            try:
                s1 = f1(c)
                ast.parse(s1, mode="eval")
            except SyntaxError:
                continue
            cases.append((f"corpus:{l1}", s1))
            for l2, f2 in ctxs[1:]:
                try:
                    s2 = f2(s1)
                    ast.parse(s2, mode="eval")
                except SyntaxError:
                    continue
                cases.append((f"corpus:{l2}>{l1}", s2))
    # beyond the small scope: the same escapes inside WIDE (40 operands) and DEEP (20-35 levels) whitelisted composites, at the first,
    # a middle and the last position — every sub-expression is checked however many are pending
    filler = ["t + u", "abs(t)", "u * 2", "t"]
    ops40 = [filler[i % 4] for i in range(40)]
    for c in CORPUS:
        for pos in (0, 1, 20, 39):
            ops = list(ops40)
            ops[pos] = f"({c})"
            wide = [("wide:Call.args", "max(" + ", ".join(ops) + ")"), ("wide:Tuple", "(" + ", ".join(ops) + ")"),
                    ("wide:Call.keyword-tuple", "round(t, ndigits=(" + ", ".join(ops) + "))"), ("wide:BinOp-chain", " + ".join(ops))]
            for lbl, src in wide:
                try:
                    ast.parse(src, mode="eval")
                except SyntaxError:
                    continue
                cases.append((f"{lbl}@{pos}", src))
        for depth in (16, 20, 35):
            inner_if, inner_call, inner_un = "t", "t", f"({c})"
            for d in range(depth):
                inner_if = f"(u if t else {inner_if})"
                inner_call = f"max(u, {inner_call})"
                inner_un = f"-({inner_un})" if d % 2 else f"abs({inner_un})"
            outer_if = f"(({c}) if t else {inner_if})"
            deep = [("deep:IfExp-outermost", outer_if), ("deep:IfExp-innermost", inner_if.replace("t)", f"({c}))", 1)),
                    ("deep:Call-outermost", f"max(({c}), {inner_call})"), ("deep:Unary-innermost", inner_un)]
            for lbl, src in deep:
                try:
                    ast.parse(src, mode="eval")
                except (SyntaxError, RecursionError, MemoryError):
                    continue
                cases.append((f"{lbl}/{depth}", src))
    # dedupe by source
    uniq: Dict[str, str] = {}
    for label, src in cases:
        uniq.setdefault(src, label)
    return [(l, s) for s, l in uniq.items()], skipped, T, len(fillers)


HISTORY_OPS = ["custom-ok", "custom-rejected", "custom-eval", "default-ok", "default-rejected", "factory"]
HISTORY_PROBES = ["len(t)", "sqrt(t)", "sum((t, u))", "getattr(t, 'real')", "pow(t, 2)", "len", "sqrt", "abs(len(t))", "max(t, key=len)",
                  "t + 1", "abs(t)", "max(t, u)", "round(t, 1)", "t.real", "(lambda: t)()", "q", "open('x')"]


def _apply_history(op: str):
    import math

    from semantiva.utils.safe_eval import ExpressionError, ExpressionEvaluator

    custom = ExpressionEvaluator(allowed_funcs={"len": len, "sqrt": math.sqrt, "sum": sum, "getattr": getattr, "pow": pow})
    try:
        if op == "custom-ok":
            custom.compile("t + 1", {"t"})
        elif op == "custom-rejected":
            custom.compile("t.__class__", {"t"})
        elif op == "custom-eval":
            custom.compile("abs(t) + 1", {"t"})(t=2.0)
        elif op == "default-ok":
            ExpressionEvaluator().compile("max(t, 1)", {"t"})(t=2.0)
        elif op == "default-rejected":
            ExpressionEvaluator().compile("len(t)", {"t"})
        elif op == "factory":
            from semantiva.data_processors.parametric_sweep_factory import ParametricSweepFactory, SequenceSpec
            from semantiva.examples.test_utils import FloatDataCollection, FloatValueDataSource

            ParametricSweepFactory.create(element=FloatValueDataSource, element_kind="DataSource", collection_output=FloatDataCollection,
                                          vars={"t": SequenceSpec([1.0])}, parametric_expressions={"value": "t"}, expression_evaluator=custom)
    except (ExpressionError, ValueError, TypeError):
        pass


_HIST_CHILD = r"""
import json, sys, logging
logging.disable(logging.CRITICAL)
from mc.props import c11
print(json.dumps(c11.history_child(json.loads(sys.argv[1]))))
"""


def history_child(ops):
    """In THIS fresh process: apply the history, then judge the probe corpus with default evaluators."""
    for op in ops:
        _apply_history(op)
    out = []
    for src in HISTORY_PROBES:
        o, v = judge(src)
        out.append([src, o, list(v) if v else None])
    return out


def _history_worker(chunk):
    import os
    import subprocess

    res = []
    for ops in chunk:
        p = subprocess.run([sys.executable, "-c", _HIST_CHILD, json.dumps(ops)], capture_output=True, text=True, env=dict(os.environ), timeout=300)
        if p.returncode != 0:
            raise RuntimeError(p.stderr[-500:])
        res.append((ops, json.loads(p.stdout.strip().splitlines()[-1])))
    return res


def histories(tier: str) -> List[List[str]]:
    hs: List[List[str]] = [[]] + [[a] for a in HISTORY_OPS]
    if tier == "thorough":
        hs += [[a, b] for a in HISTORY_OPS for b in HISTORY_OPS]
    else:
        hs += [["custom-ok", "default-ok"], ["factory", "default-rejected"], ["custom-eval", "custom-ok"]]
    return hs


SHADOW_EXPRS = ["abs", "max - abs", "abs + t", "2.0 * max", "t if abs else max", "-max", "(abs, max)", "abs(t) + abs", "max(t, abs)", "min(max, abs)",
                "float(abs)", "max if t else abs", "round(abs / max, 2)", "abs ** 2", "str(max)", "bool(abs)", "int(max) + int(abs)"]


def shadow_slice() -> Tuple[int, List[Violation]]:
    """Variables called like whitelisted functions: a bare name is the declared variable — the value of an accepted expression
    is the one the reference evaluator computes from the variables alone."""
    from semantiva.utils.safe_eval import ExpressionEvaluator
    from mc.ref import sweep as RS

    viols: List[Violation] = []
    n = 0
    for names, env in (({"abs", "max", "t"}, {"abs": 5.0, "max": 7.0, "t": -2.0}), ({"abs", "max", "t"}, {"abs": 0.0, "max": -1.5, "t": 3.0})):
        for src in SHADOW_EXPRS:
            n += 1
            call_shadowed = any(isinstance(x, ast.Call) and x.func.id in env for x in ast.walk(ast.parse(src, mode="eval")))
            try:
                got = ExpressionEvaluator().compile(src, set(names))(**env)
            except Exception as exc:  # noqa: BLE001
                got = f"raises {type(exc).__name__}"
            if call_shadowed:
                continue  # calling a name that is both a variable and a function: not defined by the documentation
            try:
                want = RS.evaluate(src, dict(env)) if "(abs, max)" != src else (env["abs"], env["max"])
            except Exception as exc:  # noqa: BLE001
                want = f"raises {type(exc).__name__}"
            if got != want and not (isinstance(got, float) and isinstance(want, float) and abs(got - want) < 1e-12):
                viols.append(Violation("variable-shadowed-or-foreign-value", f"{src!r} with variables {env}: value {got!r}, the variables alone give {want!r}",
                                       {"kind": "shadow", "expr": src}))
    return n, viols


# text that is not an expression at all: the grammar's outermost "anything else"
NOT_EXPRESSIONS = ["", " ", "t +", "(t", "t)", "t t", "t = 1", "t == ", "1 +* 2", "def f(): pass", "import os", "t; u", "t\nu", "return t", "lambda", "[t for]",
                   "t if u", "max(t,", "'unterminated", "t\x00", "0x", "1__0", "t.(u)", "@t", "(" * 250 + "t" + ")" * 250, "t +\n", "\tt", "yield", "t := 1"]


def syntax_slice() -> Tuple[int, List[Violation]]:
    """Strings that do not parse as an expression are rejected with the expression error too - by the evaluator and by the sweep factory -
    not with whatever the parser (or an unbound local) raises."""
    from semantiva.utils.safe_eval import ExpressionError, ExpressionEvaluator

    viols: List[Violation] = []
    n = 0
    for src in NOT_EXPRESSIONS:
        try:
            ast.parse(src, mode="eval")
            continue  # (it does parse in this interpreter: the enumeration proper covers it)
        except (SyntaxError, ValueError, RecursionError, MemoryError):
            pass
        n += 1
        for way in ("evaluator", "factory"):
            try:
                if way == "evaluator":
                    ExpressionEvaluator().compile(src, {"t", "u"})
                else:
                    bad = judge_factory_raw(src)
                    if bad is not None:
                        raise bad
                got = "accepted"
            except ExpressionError:
                continue
            except BaseException as exc:  # noqa: BLE001
                # the factory reports a refused expression as a ValueError naming the parameter, made from the expression error
                if way == "factory" and isinstance(exc, ValueError) and isinstance(exc.__cause__ or exc.__context__, ExpressionError):
                    continue
                got = f"{type(exc).__name__}: {str(exc)[:80]}"
            viols.append(Violation(f"not-an-expression-not-rejected-with-expression-error|{way}", f"{src[:40]!r} through the {way}: {got}",
                                   {"kind": "syntax", "expr": src}))
            break
    return n, viols


def judge_factory_raw(src: str):
    """The exception the sweep factory raises for this expression text (None if it builds), ExpressionError-compatible ones included."""
    judge_factory("t")  # fills _FACTORY
    try:
        _FACTORY["f"].create(element=_FACTORY["el"], element_kind="DataSource", collection_output=_FACTORY["coll"],
                             vars={"t": _FACTORY["seq"]([1.0]), "u": _FACTORY["seq"]([2.0])}, parametric_expressions={"value": src})
    except BaseException as exc:  # noqa: BLE001
        return exc
    return None


def yaml_slice() -> Tuple[int, List[Violation]]:
    """A slice of unsafe expressions through the YAML derive.parameter_sweep path."""
    from semantiva.utils.safe_eval import ExpressionError

    viols: List[Violation] = []
    n = 0
    try:
        from semantiva.pipeline.node_preprocess import preprocess_node_config
    except Exception:  # pragma: no cover
        return 0, viols
    ensure_hook()
    import verif_lib

    verif_lib.register()
    from semantiva.registry import load_extensions

    load_extensions(["semantiva-examples"])
    exprs = ["max(t, 1, default=__import__('os').getcwd())", "t.__class__", "(lambda: t)()", "[z for z in (t,)]",
             "max(t, *open('/etc/hostname'))", "t if t else q", "getattr(t, 'real')", "2.0 * t"]
    # the same node with and without the swept parameter ALSO given in the node's own parameters block, and with an unrelated one given
    shapes = [None, {"value": 10.0}, {"value": None}]
    for e, pinned in [(e, sh) for e in exprs for sh in shapes]:
        cfg = {
            "processor": "FloatValueDataSource",
            "derive": {"parameter_sweep": {"parameters": {"value": e}, "variables": {"t": [1.0, 2.0]},
                                            "collection": "FloatDataCollection"}},
        }
        if pinned is not None:
            cfg["parameters"] = dict(pinned)
        tree = ast.parse(e, mode="eval")
        reason = SG.why_unsafe(tree, {"t"})
        n += 1
        del _AUDIT[:]
        _AUDIT_ON[0] = True
        accepted = True
        wrong = None
        try:
            try:
                out = preprocess_node_config(dict(cfg))
                proc = out.get("processor")
                if isinstance(proc, type):
                    try:
                        inst = proc()
                        if hasattr(inst, "get_data"):
                            inst.get_data()
                    except ExpressionError:
                        accepted = False
                    except Exception:
                        pass
            except ExpressionError:
                accepted = False
            except Exception as exc:
                accepted = False
                wrong = type(exc).__name__
        finally:
            _AUDIT_ON[0] = False
        if not reason and not accepted and pinned is None:
            raise AssertionError(f"yaml slice is vacuous: the safe expression {e!r} is refused ({wrong})")
        # (building a node logs and introspects: the framework's own sys._getframe calls on this path are not the expression's doing)
        events = [ev for ev in _AUDIT if ev != "sys._getframe"]
        if reason and (accepted or events):
            viols.append(Violation(("unsafe-accepted-through-yaml" if accepted else "side-effect-during-compile") + ("|parameter-also-in-node-parameters" if pinned is not None else ""),
                                   f"derive.parameter_sweep.parameters value {e!r} ({reason}) with node parameters {pinned}: accepted={accepted} audit={sorted(set(events))}",
                                   {"kind": "yaml", "expr": e}))
    return n, viols


def check(tier: str, seed: int) -> Result:
    cases, skipped, T, nfill = build_cases(tier)
    # the same expressions under other declared-variable sets (a deterministic 1-in-8 slice (thorough: 1-in-2) per set)
    stride = 8 if tier == "quick" else 2
    base_cases = sorted(cases)
    for j, nk in enumerate(("empty", "frozen-empty", "t", "fn")):
        cases = cases + [(l, s_, nk) for i, (l, s_) in enumerate(base_cases) if (i + j) % stride == 0]
    cases = core.seeded_order(cases, seed)
    tot = {"n": 0, "accepted": 0, "rejected": 0, "other": 0}
    by_label: Dict[str, List[int]] = {}
    viols: List[Violation] = []
    for part in core.pmap_chunks(_worker, cases, chunk=2000):
        for k in tot:
            tot[k] += part[k]
        for k, (a, r) in part["by_label"].items():
            bl = by_label.setdefault(k, [0, 0])
            bl[0] += a
            bl[1] += r
        for sig, msg, label, src, nk in part["viol"]:
            pos = label.split(":", 1)[1] if ":" in label else label
            # signature: failure class + the innermost unvisited position class (Call keyword, ...)
            viols.append(Violation(sig, f"[{pos}] {msg}", {"kind": "expr", "expr": src, "names": nk}))
    ny, vy = yaml_slice()
    viols.extend(vy)
    nsh, vsh = shadow_slice()
    viols.extend(vsh)
    ny += nsh
    nsy, vsy = syntax_slice()
    viols.extend(vsy)
    ny += nsy
    # histories: what one evaluator was given must not widen what another accepts (each history in a fresh process)
    hs = histories(tier)
    base = None
    nh = 0
    for part in core.pmap_chunks(_history_worker, hs, chunk=1):
        for ops, results in part:
            nh += len(results)
            for src, outcome, v in results:
                if v:
                    viols.append(Violation(v[0] + "|after-history", f"after history {ops}: {v[1]}", {"kind": "history", "ops": ops, "expr": src}))
    tot["n"] += nh
    exprs = set(c for c in ast.expr.__subclasses__())
    cov_classes = covered_expr_classes(T) | {ast.Constant, ast.Name, ast.Slice, ast.Starred, ast.FormattedValue}
    missing = sorted(c.__name__ for c in exprs if c not in cov_classes and c.__name__ not in
                     {"Num", "Str", "Bytes", "NameConstant", "Ellipsis", "Index", "ExtSlice"}
                     and not issubclass(c, ast.Constant) and c.__module__ in ("ast", "_ast"))
    if missing:
        raise AssertionError(f"ast.expr subclasses not covered by any template: {missing}")
    samples = [{"label": c[0], "expr": c[1]} for c in cases[:: max(1, len(cases) // 8)][:8]]
    cov = {
        "evaluations": tot["n"] + ny,
        "distinct_nontrivial": tot["accepted"],
        "rule": "distinct expression sources (deduplicated) built from every ast.expr subclass x every child position, "
                "depth 2 full product over the leaf pool, depth 3 one-hole (thorough: two-hole over a 40-tree pool), plus the "
                "escape corpus embedded at 22 positions nested to depth 2; non-trivial = expressions the implementation ACCEPTED "
                "(each of those had to pass the reference whitelist walk, the code-object name check and an audited evaluation)",
        "accepted": tot["accepted"], "rejected": tot["rejected"], "other_exception_on_safe_input": tot["other"],
        "accepted_rejected_by_node_class": {k: {"accepted": v[0], "rejected": v[1]} for k, v in sorted(by_label.items())},
        "templates": len(T), "depth2_fillers": nfill, "skipped_not_roundtrippable": skipped,
        "yaml_slice": ny, "history_probe_evaluations": nh, "histories": len(hs),
        "samples": samples,
        "exhaustive": True,
    }
    return Result("exploration", cov, viols, [
        "the whitelist in mc/ref/safegrammar.py is the documented one; call keyword wrappers are transparent (their values must be safe)",
        "ASTs that ast.unparse cannot round-trip are counted and skipped",
        "evaluation confinement is observed through sys.addaudithook plus a structural check of the compiled code object",
    ])


def replay(case) -> List[Violation]:
    if case.get("kind") == "history":
        out = []
        for ops, results in _history_worker([case["ops"]]):
            for src, outcome, v in results:
                if v and src == case["expr"]:
                    out.append(Violation(v[0] + "|after-history", v[1], case))
        return out
    if case.get("kind") == "syntax":
        return [x for x in syntax_slice()[1] if x.case.get("expr") == case["expr"]]
    if case.get("kind") == "shadow":
        return [x for x in shadow_slice()[1] if x.case.get("expr") == case["expr"]]
    if case.get("kind") == "yaml":
        _, v = yaml_slice()
        return [x for x in v if x.case.get("expr") == case["expr"]]
    o, v = judge(case["expr"], NAMESETS[case["names"]]) if case.get("names") else judge(case["expr"])
    if v is None and not case.get("names"):
        v = judge_factory(case["expr"])
    return [Violation(v[0] + (("|variables=" + case["names"]) if case.get("names") else ""), v[1], case)] if v else []



# ---------------------------------------------------------------------------------------------
# environment grid (mc/envgrid.py): what is accepted, what is rejected and what an accepted expression can reach is the same in every
# process (host logging at DEBUG, python -O, warnings as errors, other hash seeds ...)

def env_cases(tier: str):
    from mc import envgrid

    cases = build_cases("quick")[0]
    sel = envgrid.pick([c for c in cases if len(c) == 2], 400 if tier == "quick" else 4000)
    emb = [("corpus:" + name, f(e)) for e in CORPUS for name, f in corpus_contexts()[:6]]
    return [{"label": c[0], "src": c[1]} for c in sel + emb]


def env_observe(case):
    o, v = judge(case["src"])
    if v is None:
        v = judge_factory(case["src"])
    return {"outcome": o, "judged": v[0] if v else None}
