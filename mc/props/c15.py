"""C15 — every queued job's future completes once, with that job's own result.

Stateless preemption-bounded exploration (mc.sched) of the real QueueSemantivaOrchestrator.run_forever,
worker_loop and in-memory transport: a client thread enqueuing jobs, the master and 1-2 workers, with
scheduling points at every shared-object operation (job queue, transport publish / pop, pending_futures,
stop event) and polling modelled as waiting.  Quiescence with an incomplete Future is a violation.
"""
from __future__ import annotations

import collections
import os
import fnmatch
import json
import queue as _queue
import types
from concurrent.futures import Future
from typing import Any, Dict, List, Optional, Tuple

from mc import core, gen, harness, sched
from mc.core import Result, Violation

_CUR: List[Optional[sched.Scheduler]] = [None]


def S() -> sched.Scheduler:
    s = _CUR[0]
    assert s is not None
    return s


def yp(where: str):
    s = _CUR[0]
    if s is not None and s.my_tid() is not None:
        s.yield_point(where)


def touch():
    s = _CUR[0]
    if s is not None:
        s.touch()


class CoopEvent:
    def __init__(self):
        self._flag = False

    def is_set(self):
        yp("event.is_set")
        return self._flag

    def set(self):
        yp("event.set")
        self._flag = True
        touch()

    def peek(self):
        return self._flag


class CoopQueue:
    """Cooperative stand-in for queue.Queue as used by the master (put / get(timeout))."""

    def __init__(self, ready_pred):
        self._d: collections.deque = collections.deque()
        self._ready = ready_pred  # anything the master would notice on its next loop iteration

    def put(self, item):
        yp("queue.put")
        self._d.append(item)
        touch()

    def get(self, timeout=None):
        yp("queue.get")
        if not self._d:
            # a poll with timeout: wait until the master has something to do, then report Empty if it is not a job
            S().block_until(lambda: bool(self._d) or self._ready(), "queue.get(wait)", kind="waiting")
            if not self._d:
                raise _queue.Empty
        item = self._d.popleft()
        touch()
        return item

    def qsize(self):
        return len(self._d)


class YieldDict(dict):
    def __setitem__(self, k, v):
        yp("futures.set")
        super().__setitem__(k, v)
        touch()

    def __contains__(self, k):
        yp("futures.contains")
        return super().__contains__(k)

    def __getitem__(self, k):
        yp("futures.get")
        return super().__getitem__(k)

    def __delitem__(self, k):
        yp("futures.del")
        super().__delitem__(k)
        touch()

    def pop(self, k, *d):
        yp("futures.pop")
        r = super().pop(k, *d)
        touch()
        return r


class SchedSubscription:
    def __init__(self, inner):
        self.inner = inner

    def __iter__(self):
        it = iter(self.inner)
        while True:
            yp("sub.next")
            try:
                msg = next(it)
            except StopIteration:
                return
            touch()
            yield msg

    def close(self):
        self.inner.close()


class SchedTransport:
    """Wraps the real in-memory transport; publish / pop are atomic steps with a scheduling point before each."""

    def __init__(self, inner):
        self.inner = inner

    def connect(self):
        self.inner.connect()

    def close(self):
        self.inner.close()

    def publish(self, channel, data, context, metadata=None, require_ack=False):
        yp("publish:" + channel.split(".")[-1])
        r = self.inner.publish(channel, data, context, metadata, require_ack)
        touch()
        return r

    def subscribe(self, channel, *, callback=None):
        return SchedSubscription(self.inner.subscribe(channel))

    def has(self, pattern: str) -> bool:
        return any(fnmatch.fnmatch(ch, pattern) and len(q) > 0 for ch, (q, _) in list(self.inner._queues.items()))


JOBS = {
    "J1": (("src", "mul3"), {}),
    "J2": (("srcdef", "muldef", "probe_r"), {"value": 9.0}),
    "J3": (("src", "two_cfg", "ctxw"), {"factor": 5.0}),
    # pipelines with context processors (rename / template / delete): the only code where two jobs in two worker threads of ONE
    # process run the same framework classes at the same time
    "K1": (("src", "probe_r", "ren_r_factor", "mul"), {}),
    "K2": (("src", "ctxw", "tmpl_a", "del_a", "probe_factor"), {"r": 4.0}),
    "K3": (("ren_r_factor",), {"r": 4.0}),       # minimal: one context processor each (line-level harness in the quick tier)
    "K4": (("tmpl_a",), {"r": 7.0}),
    # the job's payload carries data (the pipeline starts with an operation): a falsy content (0.0) is data like any other
    "Z0": (("mul3", "probe_r"), {}, 0.0),
    "Z5": (("mul3", "probe_r"), {}, 5.0),
    "FAIL": (("src", "fail"), {}),
    "BADCFG": (("src", "bogus"), {}),
    # fails inside Pipeline(...) itself (before any process() call): a sweep without variables
    "BADCTOR": ("<explicit>", {}),
    # the pipeline is named by a RELATIVE YAML path (what enqueue() documents as its other form); the process has changed its working
    # directory since the framework was imported.  Y1 is a good file, YMISSING names no file, YBAD a file that holds no pipeline
    "Y1": ("<yaml>", {}),
    "YMISSING": ("<yaml>", {}),
    "YBAD": ("<yaml>", {}),
}
YAML_JOBS = {"Y1": ("src", "mul3", "probe_r"), "YMISSING": None, "YBAD": "pipeline: {nodes: 7}\n"}
EXPLICIT_NODES = {
    "BADCTOR": [{"processor": "VSrc", "parameters": {"value": 2.0}},
                {"processor": "VMul", "derive": {"parameter_sweep": {"parameters": {"factor": "t"}, "variables": {}, "collection": "FloatDataCollection"}}}],
}


def _yaml_job_path(name: str) -> str:
    """Relative path of the job's YAML file inside a directory entered AFTER the framework's queue modules were imported."""
    import yaml

    from semantiva.execution.job_queue import queue_orchestrator, worker  # noqa: F401 - imported before the directory changes

    d = os.path.join(harness.scratch_dir(), "jobs here")
    os.makedirs(d, exist_ok=True)
    os.chdir(d)
    rel = os.path.join("cfg", f"{name.lower()}.yaml")
    os.makedirs("cfg", exist_ok=True)
    spec = YAML_JOBS[name]
    if spec is None:
        if os.path.exists(rel):
            os.unlink(rel)
    else:
        with open(rel, "w") as fh:
            fh.write(spec if isinstance(spec, str) else yaml.safe_dump(gen.yaml_config(spec), sort_keys=False))
    return rel


def job_nodes(name: str):
    if name in YAML_JOBS:
        return _yaml_job_path(name)
    if name in EXPLICIT_NODES:
        cfg = harness.load_config({"extensions": ["verif_lib"], "pipeline": {"nodes": EXPLICIT_NODES[name]}})
        return cfg.nodes
    cfg = harness.load_config(gen.yaml_config(JOBS[name][0]))
    return cfg.nodes


def job_data(name: str):
    """The data part of the job's payload (None for pipelines that start with a source)."""
    if len(JOBS[name]) > 2:
        from semantiva.examples.test_utils import FloatDataType

        return FloatDataType(JOBS[name][2])
    return None


_DIRECT: Dict[str, Any] = {}


def direct(name: str):
    """Result of running the job's pipeline directly (computed once per process)."""
    if name not in _DIRECT:
        from semantiva.pipeline import Pipeline

        try:
            spec = job_nodes(name)
            if isinstance(spec, str):
                from semantiva.configurations.load_pipeline_from_yaml import load_pipeline_from_yaml

                spec = load_pipeline_from_yaml(spec).nodes
            pipe = Pipeline(spec)
        except Exception as exc:  # the pipeline cannot even be constructed: the job must still fail its Future
            _DIRECT[name] = ("construct", None, dict(JOBS[name][1]), type(exc).__name__)
            return _DIRECT[name]
        real = harness.run_pipeline(pipe, job_data(name), dict(JOBS[name][1]), None)
        _DIRECT[name] = (real.status, real.data, dict(real.ctx), real.error)
    return _DIRECT[name]


def run_harness(batch: Tuple[str, ...], nworkers: int, prefix: List[int], fine: bool = False, policy=None) -> sched.Execution:
    import threading as real_threading

    from semantiva.context_processors import ContextType
    from semantiva.execution.executor.executor import SequentialSemantivaExecutor
    from semantiva.execution.job_queue import queue_orchestrator as qo
    from semantiva.execution.job_queue import worker as wk
    from semantiva.execution.transport import in_memory
    from semantiva.logger import Logger

    harness.quiet()
    in_memory.threading = types.SimpleNamespace(Lock=lambda: sched.CoopLock(lambda: _CUR[0]), Thread=real_threading.Thread)
    # fine mode: additionally a scheduling point at every source line of the master and worker modules
    retire = fine == "retire"  # worker 0 is stopped and leaves (closing its handle on the SHARED transport) after the first job; the rest go on
    if fine == "ctxproc":
        import semantiva.context_processors.context_processors as cpm

        files = [cpm.__file__]
    elif retire:
        files = []
    else:
        files = ([wk.__file__] if fine == "worker" else [qo.__file__, wk.__file__]) if fine else []
    s = sched.Scheduler(files, prefix, max_steps=400000 if files else 30000, policy=policy)
    _CUR[0] = s
    try:
        inner = in_memory.InMemorySemantivaTransport()
        tr = SchedTransport(inner)
        stop = CoopEvent()
        log = Logger(level="CRITICAL")
        orch = qo.QueueSemantivaOrchestrator(tr, stop_event=stop, logger=log)
        orch.job_queue = CoopQueue(lambda: tr.has("jobs.*.status") or stop.peek())
        orch.pending_futures = YieldDict()
        tl = real_threading.local()
        stops = [CoopEvent() for _ in range(nworkers)] if retire else [stop] * nworkers
        exited = [False] * nworkers
        # (the predicate is evaluated by the scheduler's controller thread: the worker's own stop event is captured here, in the worker)
        wk.time = types.SimpleNamespace(sleep=lambda dt: (lambda st: S().block_until(lambda: tr.has("jobs.*.cfg") or st.peek(), "worker.sleep", kind="waiting"))(getattr(tl, "stop", stop)))
        futures: List[Tuple[str, Future, Any]] = []
        if hasattr(policy, "bind"):
            policy.bind(futures=futures, orch=orch, tr=tr)
        nodes = {name: job_nodes(name) for name in set(batch)}
        counter = iter(range(1, 1000))
        qo.uuid = types.SimpleNamespace(uuid4=lambda: f"job-{next(counter):04d}")  # own the job-id randomness

        def client():
            for i, name in enumerate(batch):
                ctx = ContextType(dict(JOBS[name][1]))
                f = orch.enqueue(nodes[name], data=job_data(name), context=ctx, return_future=True)
                futures.append((name, f, ctx))
                if retire and i == 0:
                    S().block_until(lambda: futures[0][1].done(), "client.wait-first-job", kind="waiting")
                    stops[0].set()
                    S().block_until(lambda: exited[0], "client.wait-worker-0-gone", kind="waiting")

        def worker(w):
            tl.stop = stops[w]
            try:
                wk.worker_loop(w, tr, SequentialSemantivaExecutor(), stops[w], logger=log)
            finally:
                exited[w] = True
                touch()

        s.spawn(0, client)
        s.spawn(1, orch.run_forever)
        for w in range(nworkers):
            s.spawn(2 + w, lambda w=w: worker(w))
        x = s.run()
        blocked = [t for t, st in s.state.items() if st == "blocked"]
        obs = {"jobs": [], "blocked_threads": blocked, "errors": {k: repr(v) for k, v in x.errors.items()},
               "leftover": sorted(ch for ch, (q, _) in inner._queues.items() if len(q) > 0)}
        for name, f, ctx in futures:
            if not f.done():
                obs["jobs"].append((name, "pending", None))
            elif f.cancelled():
                obs["jobs"].append((name, "cancelled", None))
            elif f.exception() is not None:
                obs["jobs"].append((name, "exception", type(f.exception()).__name__))
            else:
                data, rctx = f.result()
                obs["jobs"].append((name, "result", [list(harness.canon_data(data)), {k: v for k, v in rctx.to_dict().items()}]))
        obs["enqueued"] = len(futures)
        obs["livelock"] = x.livelock
        x.obs = obs
        if not x.deadlock:
            x.obs["terminated"] = True
        return x
    finally:
        _CUR[0] = None
        try:
            s._kill_all()
        except Exception:
            pass
        harness.reset_log()  # the failing processors raise ONE exception object: its traceback chain (frames, this execution) grows with every raise


def run_pair_harness(batch: Tuple[str, ...], prefix: List[int]) -> sched.Execution:
    """The worker side in isolation: each job's pipeline runs in its own thread of this process (what N workers do), scheduling points
    at every source line of semantiva/context_processors/context_processors.py and payload_processors.py.  No queue, no master."""
    import semantiva.context_processors.context_processors as cpm
    import semantiva.pipeline.payload_processors as ppm
    from semantiva.pipeline import Pipeline

    harness.quiet()
    pipes = [Pipeline(job_nodes(n)) for n in batch]  # built sequentially: construction is not the subject here
    s = sched.Scheduler([cpm.__file__, ppm.__file__], prefix, max_steps=400000)
    _CUR[0] = s
    try:
        results: Dict[int, Any] = {}

        def work(i):
            real = harness.run_pipeline(pipes[i], None, dict(JOBS[batch[i]][1]), None)
            results[i] = (real.status, real.data, dict(real.ctx), real.error)

        for i in range(len(batch)):
            s.spawn(i, lambda i=i: work(i))
        x = s.run()
        x.obs = {"results": {i: results.get(i) for i in range(len(batch))}, "errors": {k: repr(v) for k, v in x.errors.items()},
                 "blocked_threads": [t for t, st in s.state.items() if st == "blocked"]}
        return x
    finally:
        _CUR[0] = None
        try:
            s._kill_all()
        except Exception:
            pass
        harness.reset_log()  # the failing processors raise ONE exception object: its traceback chain (frames, this execution) grows with every raise


def judge_pair_factory(batch: Tuple[str, ...]):
    def judge(x: sched.Execution) -> Optional[Tuple[str, str]]:
        o = x.obs
        if o["errors"] or o["blocked_threads"]:
            return ("thread-raised", f"a thread raised or blocked: {o['errors']} {o['blocked_threads']}")
        for i, name in enumerate(batch):
            want = direct(name)
            got = o["results"].get(i)
            if got is None or not core.same(tuple(got), tuple(want)):
                return ("concurrent-pipeline-differs-from-direct-run",
                        f"job {i} ({name}) run in its own thread next to {[b for j, b in enumerate(batch) if j != i]}: {got}; run alone: {want} (cross-talk between concurrently running pipelines)")
        return None

    return judge


def _explore_pair_root(arg):
    batch, bound, root, cap = arg
    for n in set(batch):
        direct(n)
    st, fails, capped = sched.explore(lambda p: run_pair_harness(batch, p), judge_pair_factory(batch), bound, roots=[root], max_executions=cap,
                                      outcome_key=lambda x: json.dumps(x.obs["results"], default=repr, sort_keys=True))
    return (batch, len(batch), "pair-lines"), st, fails, capped


def judge_factory(batch: Tuple[str, ...]):
    def judge(x: sched.Execution) -> Optional[Tuple[str, str]]:
        o = x.obs
        if o.get("livelock"):
            pend = [n for n, st_, _ in o["jobs"] if st_ == "pending"]
            return ("livelock", f"master / workers keep polling without making progress (step horizon exceeded); futures still pending: {pend}")
        if o["errors"]:
            return ("thread-raised", f"a thread raised: {o['errors']}")
        if o["blocked_threads"]:
            return ("deadlock", f"threads blocked on a lock at quiescence: {o['blocked_threads']}")
        if o["enqueued"] != len(batch):
            return ("client-did-not-finish", f"only {o['enqueued']} of {len(batch)} jobs enqueued at quiescence")
        for i, (name, state, val) in enumerate(o["jobs"]):
            st, data, ctx, err = direct(name)
            if state == "pending":
                kind = "failing-job" if st != "ok" else "successful-job"
                return (f"future-never-completes|{kind}", f"job {i} ({name}): system is quiescent but the Future is not done")
            if state == "cancelled":
                return ("future-cancelled", f"job {i} ({name}): its Future was cancelled — the caller gets CancelledError instead of the job's own {'result' if st == 'ok' else 'exception'}")
            if st != "ok":
                if state != "exception":
                    return ("failing-job-future-has-result", f"job {i} ({name}) raises {err} when run directly but its Future holds a result {val}")
                continue
            if state == "exception":
                return ("successful-job-future-has-exception", f"job {i} ({name}): Future failed with {val}")
            got_data, got_ctx = tuple(val[0]), dict(val[1])
            jid = got_ctx.pop("job_id", None)
            if jid is None:
                return ("missing-job-id", f"job {i} ({name}): result context has no job_id annotation")
            if got_data != tuple(data) or got_ctx != ctx:
                return ("wrong-result-for-job", f"job {i} ({name}): Future holds {got_data} {got_ctx}; direct run gives {data} {ctx} (cross-talk?)")
        jids = [v[1].get("job_id") for n, s_, v in o["jobs"] if s_ == "result"]
        if len(set(jids)) != len(jids):
            return ("duplicate-job-id", f"two futures carry the same job id: {jids}")
        return None

    return judge


def outcome_key(x: sched.Execution) -> str:
    return json.dumps([[n, s_] for n, s_, v in x.obs["jobs"]] + [x.obs["leftover"]], default=repr)


def run_any(batch, nworkers, prefix, fine, policy=None):
    return run_pair_harness(batch, prefix) if fine == "pair" else run_harness(batch, nworkers, prefix, fine, policy)


def judge_any(batch, fine):
    return judge_pair_factory(batch) if fine == "pair" else judge_factory(batch)


def outcome_any(x: sched.Execution) -> str:
    return json.dumps(x.obs["results"], default=repr, sort_keys=True) if "results" in x.obs else outcome_key(x)


BUDGET = 1500  # executions per task; the rest of the task's search stack comes back as further tasks (sub-trees are very uneven)


def _explore_root(arg):
    batch, nworkers, bound, roots, cap, fine = arg
    for n in set(batch):
        direct(n)
    st, fails, capped = sched.explore(lambda p: run_any(batch, nworkers, p, fine), judge_any(batch, fine), bound, roots=roots,
                                      max_executions=cap, outcome_key=outcome_any, budget=BUDGET)
    rest, st.rest = st.rest, []
    # hand the unexplored stack back in a few pieces (deepest items last = cheapest first)
    more = [(batch, nworkers, bound, rest[i::4], cap, fine) for i in range(4) if rest[i::4]]
    return ((batch, nworkers, fine), st, fails, capped), more


def plans(tier: str):
    """(batch, workers, preemption bound, fine?) — fine = line-level scheduling points inside master and worker modules."""
    if tier == "quick":
        return [(("J1",), 1, 2, False), (("J1", "J2"), 1, 1, False), (("J1", "J2"), 2, 1, False), (("FAIL",), 1, 1, False),
                (("J1", "FAIL"), 1, 1, False), (("BADCFG", "J1"), 1, 0, False), (("BADCTOR",), 1, 1, False), (("J1", "BADCTOR", "J2"), 1, 0, False),
                (("BADCTOR", "J1"), 2, 0, False),
                (("J1", "J2"), 1, 1, "worker"), (("FAIL", "J2"), 1, 1, "worker"), (("K1", "K2"), 2, 1, "pair"), (("K3", "K3"), 2, 1, "pair"), (("K1", "K2"), 2, 0, False),
                (("J1", "J2", "FAIL"), 2, 0, "retire"),
                (("Y1", "J1"), 1, 1, False), (("Z0", "Z5"), 2, 0, False), (("YMISSING", "J1"), 1, 0, False), (("J1", "YBAD", "Y1"), 2, 0, False)]
    return [(("J1",), 1, 3, False), (("J1", "J2"), 1, 2, False), (("J1", "J2"), 2, 2, False), (("J1", "J2", "J3"), 2, 1, False), (("FAIL",), 1, 2, False),
            (("J1", "FAIL"), 1, 2, False), (("FAIL", "J2"), 2, 2, False), (("J1", "FAIL", "J3"), 2, 1, False), (("J1", "J2", "FAIL"), 2, 1, False),
            (("FAIL", "J1", "J2"), 1, 1, False), (("BADCFG", "J1"), 2, 1, False), (("J1", "J1"), 2, 2, False),
            (("BADCTOR",), 1, 2, False), (("J1", "BADCTOR", "J2"), 1, 1, False), (("BADCTOR", "J1"), 2, 1, False), (("J1", "BADCTOR"), 2, 1, "worker"),
            (("J1",), 1, 2, True), (("J1", "J2"), 1, 1, True), (("J1", "J2"), 2, 1, "worker"), (("FAIL", "J2"), 2, 1, "worker"), (("J1", "J2"), 2, 1, True),
            (("K3", "K4"), 2, 1, "ctxproc"), (("K3", "K4"), 2, 1, "pair"), (("K1", "K1", "K2"), 3, 1, "pair"), (("K2", "K1"), 2, 1, False), (("J1", "J2", "FAIL"), 2, 1, "retire"), (("J1", "J2", "J3", "FAIL"), 3, 0, "retire"),
            (("Y1", "J1"), 2, 2, False), (("Z0", "Z5", "Z0"), 2, 1, False), (("YMISSING", "J1"), 2, 1, False), (("J1", "YBAD", "Y1"), 2, 1, False), (("Y1", "Y1"), 2, 1, "worker")]


class PileUp:
    """Deterministic schedule for large batches: first the client and the master run alone until every job is enqueued AND published
    (workers starved), then the master is starved: the workers process everything, so all completions are waiting when the master
    next looks.  Bound to the harness objects by run_harness (policy.bind)."""

    def __init__(self, njobs: int):
        self.njobs = njobs
        self.env: Dict[str, Any] = {}

    def bind(self, **env):
        self.env = env

    def __call__(self, enabled: List[int], running_enabled: bool, i: int) -> int:
        e = self.env
        published_all = len(e["futures"]) == self.njobs and not e["orch"].job_queue._d
        victims = {1} if published_all else {t for t in enabled if t >= 2}
        for k, t in enumerate(enabled):
            if t not in victims:
                return k
        return 0


def _rr_worker(chunk):
    out = []
    for batch, nworkers, quantum, rot in chunk:
        for n in set(batch):
            direct(n)
        pol = (PileUp(len(batch)) if quantum == "pile-up" else sched.starve(int(quantum.split(":")[1]))) if isinstance(quantum, str) else sched.round_robin(quantum, rot)
        x = run_harness(batch, nworkers, [], False, pol)
        bad = judge_factory(batch)(x)
        out.append((len(batch), nworkers, quantum, rot, len(x.points), bad))
    return out


def large_batches(tier: str):
    """The property's larger batches under a FIXED, ENUMERATED schedule family (round robin, every rotation, quantum 1/2/5)."""
    names = ["J1", "J2", "J3"]
    sizes = [8] if tier == "quick" else [8, 40]
    jobs = []
    for n in sizes:
        for fail_pos in ([None, 0, n - 1] if tier == "quick" else [None] + list(range(0, n, max(1, n // 8)))):
            batch = tuple("FAIL" if i == fail_pos else names[i % 3] for i in range(n))
            for nworkers in ([2] if tier == "quick" else [1, 2, 4]):
                for quantum in (1, 2, 5):
                    for rot in range(2 + nworkers):
                        jobs.append((batch, nworkers, quantum, rot))
    # beyond the small scope: 12 (thorough: 12, 25, 40) jobs whose completions all pile up before the master looks (master starved), and
    # whose configurations all pile up before any worker looks (workers starved)
    for n in ([12] if tier == "quick" else [12, 25, 40]):
        for fail_pos in (None, 8):
            batch = tuple("FAIL" if i == fail_pos else names[i % 3] for i in range(n))
            for nworkers in (1, 3):
                jobs.append((batch, nworkers, "pile-up", 0))    # all completions waiting at once
                jobs.append((batch, nworkers, "starve:1", 0))   # thread 1 = master
                jobs.append((batch, nworkers, "starve:0", 0))   # thread 0 = client: every job is processed before the next is enqueued
    return jobs


def check(tier: str, seed: int) -> Result:
    cap = 200000 if tier == "quick" else 2000000
    per: Dict[str, dict] = {}
    jobs = []
    only = os.environ.get("VERIF_C15_ONLY")  # diagnostic: comma-separated plan indexes (timing one harness alone)
    chosen = [p for i, p in enumerate(plans(tier)) if not only or str(i) in only.split(",")]
    for batch, nworkers, bound, fine in chosen:
        key = f"{'+'.join(batch)}/w{nworkers}{('/lines-' + str(fine)) if fine else ''}"
        x0 = run_any(batch, nworkers, [], fine)
        x1 = run_any(batch, nworkers, [], fine)
        if x0.trace != x1.trace or x0.obs != x1.obs:
            raise sched.ReplayDivergence(f"{key}: default schedule not reproducible")
        bad0 = judge_any(batch, fine)(x0)
        per[key] = {"batch": list(batch), "workers": nworkers, "bound": bound, "fine": fine, "executions": 1, "transitions": len(x0.points),
                    "points_default_run": len(x0.points), "by_preemptions": {0: 1}, "outcomes": {outcome_any(x0): 1},
                    "failures": [([], 0, bad0)] if bad0 else [], "capped": False}
        if x0.livelock:
            continue  # the default schedule itself never comes to rest: reported below, nothing to branch from
        for i, p in enumerate(x0.points):
            if (1 if p.running_enabled else 0) <= bound:
                for alt in range(1, len(p.enabled)):
                    jobs.append((batch, nworkers, bound, [(x0.choices[:i] + [alt], i + 1)], cap, fine))
    jobs = core.seeded_order(jobs, seed)
    for part in core.pmap_dynamic(_explore_root, jobs):
        for (batch, nworkers, fine), st, fails, capped in [part]:
            p = per[f"{'+'.join(batch)}/w{nworkers}{('/lines-' + str(fine)) if fine else ''}"]
            p["executions"] += st.executions
            p["transitions"] += st.points
            for k, v in st.by_preemptions.items():
                p["by_preemptions"][k] = p["by_preemptions"].get(k, 0) + v
            for k, v in st.outcomes.items():
                p["outcomes"][k] = p["outcomes"].get(k, 0) + v
            p["failures"].extend(fails)
            p["capped"] = p["capped"] or capped
    viols: List[Violation] = []
    samples = []
    tot_e = tot_t = tot_o = 0
    for key, p in per.items():
        tot_e += p["executions"]
        tot_t += p["transitions"]
        tot_o += len(p["outcomes"])
        if p["failures"]:
            choices, npre, (sig, msg) = min(p["failures"], key=lambda f: (f[1], len(f[0])))
            a = run_any(tuple(p["batch"]), p["workers"], choices, p["fine"])
            b = run_any(tuple(p["batch"]), p["workers"], choices, p["fine"])
            if a.obs != b.obs or a.trace != b.trace:
                raise sched.ReplayDivergence(f"{key}: failing schedule does not replay deterministically")
            viols.append(Violation(sig, f"{key}: {msg} [preemptions={npre}, schedule length {len(choices)}]",
                                   {"batch": p["batch"], "workers": p["workers"], "choices": choices, "fine": p["fine"]}))
        samples.append({"harness": key, "bound": p["bound"], "executions": p["executions"], "distinct_outcomes": len(p["outcomes"]),
                        "by_preemptions": p["by_preemptions"], "points_default_run": p["points_default_run"], "capped": p["capped"]})
    # larger batches under the enumerated round-robin family
    rr = large_batches(tier) if not only else []
    rr_n = rr_points = 0
    for part in core.pmap_chunks(_rr_worker, rr, chunk=max(1, len(rr) // (core.NPROC * 3))):
        for njobs, nworkers, quantum, rot, npts, bad in part:
            rr_n += 1
            rr_points += npts
            if bad:
                viols.append(Violation(bad[0], f"{njobs} jobs / {nworkers} workers, round robin quantum={quantum} rotation={rot}: {bad[1]}",
                                       {"kind": "rr", "njobs": njobs, "workers": nworkers, "quantum": quantum, "rotation": rot}))
    tot_e += rr_n
    tot_t += rr_points
    capped_any = any(p["capped"] for p in per.values())
    cov = {
        "states": tot_t, "transitions": tot_t, "traces_validated_against_impl": tot_e,
        "evaluations": tot_e, "distinct_nontrivial": tot_o,
        "rule": "all schedules with at most <bound> preemptions of {client, master, 1-2 workers} for each job batch (distinct pipelines and "
                "payloads; a failing / unconstructible job at each position); scheduling points at every job-queue, transport, "
                "pending_futures and stop-event operation; states = scheduling points visited (stateless search); distinct_nontrivial = "
                "distinct (per-future state, leftover channels) outcomes",
        "round_robin_schedules_of_large_batches": rr_n,
        "schedules": tot_e, "harnesses": {k: {kk: vv for kk, vv in p.items() if kk not in ("failures", "outcomes")} for k, p in per.items()},
        "samples": samples, "exhaustive": not capped_any, "cap_hit": capped_any,
    }
    return Result("model_checking", cov, viols, [
        "transport publish / pop are atomic steps here (their internal atomicity is C14's property)",
        "polling (queue.get(timeout), time.sleep(poll)) is modelled as waiting until the polled condition can change; quiescence = no enabled thread",
        "exhaustive preemption-bounded exploration for batches of 1-3 jobs; batches of 8 (thorough: 40) jobs with 1-4 workers run under a fixed enumerated family of round-robin schedules (quantum 1/2/5 x every rotation), not under random switch intervals",
    ])


def replay(case) -> List[Violation]:
    if case.get("kind") == "rr":
        o = [r for r in _rr_worker([j for j in large_batches("thorough") + large_batches("quick")
                                    if len(j[0]) == case["njobs"] and j[1] == case["workers"] and j[2] == case["quantum"] and j[3] == case["rotation"]][:40]) if r[5]]
        return [Violation(r[5][0], r[5][1], case) for r in o[:1]]
    batch = tuple(case["batch"])
    x = run_any(batch, case["workers"], case["choices"], case.get("fine", False))
    bad = judge_any(batch, case.get("fine", False))(x)
    return [Violation(bad[0], bad[1], case)] if bad else []



# ---------------------------------------------------------------------------------------------
# environment grid (mc/envgrid.py): a fixed, enumerated family of schedules of the quick harnesses, judged in every environment

def env_cases(tier: str):
    out = []
    for batch, nworkers, bound, fine in plans("quick"):
        if fine not in (False, "pair"):
            continue
        x = run_any(batch, nworkers, [], fine)
        out.append({"batch": list(batch), "workers": nworkers, "fine": fine, "prefix": []})
        alts = [(i, a) for i, p in enumerate(x.points) for a in range(1, len(p.enabled))]
        for i, a in alts[:: max(1, len(alts) // (3 if tier == "quick" else 30))]:
            out.append({"batch": list(batch), "workers": nworkers, "fine": fine, "prefix": x.choices[:i] + [a]})
    return out


def env_observe(case):
    batch = tuple(case["batch"])
    try:
        x = run_any(batch, case["workers"], list(case["prefix"]), case["fine"])
    except sched.ReplayDivergence:
        # python -O / -OO compile other line tables: a choice sequence recorded in the base environment may not exist there
        return {"judged": None, "deadlock": False, "livelock": False}
    bad = judge_any(batch, case["fine"])(x)
    return {"judged": bad[0] if bad else None, "deadlock": x.deadlock, "livelock": x.livelock}
