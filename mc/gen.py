"""Alphabet of node templates and deterministic program / context enumeration.

A program is a tuple of symbol names.  Each symbol carries
  node   : the YAML node mapping
  kind   : source | paysource | op | probe | ctx | slicer_op | slicer_probe | sink | sweep_src | sweep_op | sweep_probe | invalid
  params : ordered list of (name, default-or-NODEF) the processor resolves at run time
  cfg    : node-level parameter values
  reads  : context keys whose presence can influence the node (used to enumerate initial contexts)
"""
from __future__ import annotations

import itertools
from typing import Any, Dict, Iterable, List, Optional, Sequence, Tuple

NODEF = "<<no-default>>"
GEN_VERSION = 1

# one fixed, distinctive value per context key (all different from every processor default)
KEY_VALUES: Dict[str, Any] = {
    "a": 1.5, "b": 2.5, "r": 4.0, "factor": 5.0, "addend": 0.75, "path": "p_ctx.txt", "value": 9.0, "gain": 1.25, "offset": 0.375,
    "zz": 0.125, "items": [1.0, 2.5], "p.q": 3.5, "tagsrc": "T0", "nest": {"limits": {"hi": 7, "lo": 1}, "alpha": 2},
}


# falsy-but-not-None values (a truthiness test where an `is not None` test is meant shows only on these)
FALSY_VALUES: Dict[str, Any] = {"a": 0.0, "b": 0, "r": 0.0, "factor": 0.0, "addend": 0, "value": 0.0, "gain": False, "path": "p0.txt", "t_values": 0.0}


def _n(proc, params=None, **extra):
    d: Dict[str, Any] = {"processor": proc}
    if params is not None:
        d["parameters"] = params
    d.update(extra)
    return d


def _sweep(proc, parameters, variables, collection=None, mode=None, broadcast=None, **extra):
    ps: Dict[str, Any] = {"parameters": parameters, "variables": variables}
    if collection:
        ps["collection"] = collection
    if mode:
        ps["mode"] = mode
    if broadcast is not None:
        ps["broadcast"] = broadcast
    d = {"processor": proc, "derive": {"parameter_sweep": ps}}
    d.update(extra)
    return d


SYMBOLS: Dict[str, dict] = {
    # sources
    "src": dict(node=_n("VSrc", {"value": 2.0}), kind="source", params=[("value", NODEF)], cfg={"value": 2.0}, reads=[]),
    "src_ctx": dict(node=_n("VSrc"), kind="source", params=[("value", NODEF)], cfg={}, reads=["value"]),
    "srcdef": dict(node=_n("VSrcDef"), kind="source", params=[("value", 42.0)], cfg={}, reads=["value"]),
    "paysrc": dict(node=_n("VPaySrc"), kind="paysource", params=[], cfg={}, reads=["b"]),
    # float operations
    "mul3": dict(node=_n("VMul", {"factor": 3.0}), kind="op", proc="VMul", params=[("factor", NODEF)], cfg={"factor": 3.0}, reads=["factor"]),
    "mul": dict(node=_n("VMul"), kind="op", proc="VMul", params=[("factor", NODEF)], cfg={}, reads=["factor"]),
    "muldef": dict(node=_n("VMulDef"), kind="op", proc="VMulDef", params=[("factor", 2.0)], cfg={}, reads=["factor"]),
    # a parameter the node configuration sets to null IS configured (node > context > default), and non-finite numbers are numbers
    "mulnone": dict(node=_n("VMul", {"factor": None}), kind="op", proc="VMul", params=[("factor", NODEF)], cfg={"factor": None}, reads=["factor"]),
    "muldefnone": dict(node=_n("VMulDef", {"factor": None}), kind="op", proc="VMulDef", params=[("factor", 2.0)], cfg={"factor": None}, reads=["factor"]),
    "mulinf": dict(node=_n("VMul", {"factor": float("inf")}), kind="op", proc="VMul", params=[("factor", NODEF)], cfg={"factor": float("inf")}, reads=["factor"]),
    "add": dict(node=_n("VAdd"), kind="op", proc="VAdd", params=[("addend", NODEF)], cfg={}, reads=["addend"]),
    "two": dict(node=_n("VTwo"), kind="op", proc="VTwo", params=[("factor", NODEF), ("addend", 0.5)], cfg={}, reads=["factor", "addend"]),
    "two_cfg": dict(node=_n("VTwo", {"addend": 0.25}), kind="op", proc="VTwo", params=[("factor", NODEF), ("addend", 0.5)], cfg={"addend": 0.25}, reads=["factor", "addend"]),
    # four parameters resolved from the context by ONE node (whatever lists them has 24 possible orders)
    "five_cfg": dict(node=_n("VFive", {"bias": 0.5}), kind="op", proc="VFive", params=[("factor", NODEF), ("addend", NODEF), ("offset", NODEF), ("gain", NODEF), ("bias", NODEF)],
                     cfg={"bias": 0.5}, reads=["factor", "addend", "offset", "gain"]),
    "kwmix": dict(node=_n("VKwMix"), kind="op", proc="VKwMix", params=[("factor", 2.0), ("offset", NODEF)], cfg={}, reads=["factor", "offset"]),
    # keyword-only parameters (declared after a bare * in _process_logic) resolve like any other
    "kwmul": dict(node=_n("VKwMul"), kind="op", proc="VKwMul", params=[("factor", NODEF)], cfg={}, reads=["factor"]),
    "kwmul3": dict(node=_n("VKwMul", {"factor": 3.0}), kind="op", proc="VKwMul", params=[("factor", NODEF)], cfg={"factor": 3.0}, reads=["factor"]),
    "kwtwo": dict(node=_n("VKwTwo"), kind="op", proc="VKwTwo", params=[("factor", NODEF), ("addend", 0.5)], cfg={}, reads=["factor", "addend"]),
    "kwtwo_cfg": dict(node=_n("VKwTwo", {"addend": 0.25}), kind="op", proc="VKwTwo", params=[("factor", NODEF), ("addend", 0.5)], cfg={"addend": 0.25}, reads=["factor", "addend"]),
    "ctxw": dict(node=_n("VCtxWrite"), kind="op", proc="VCtxWrite", params=[], cfg={}, reads=["a"]),
    "itemsum": dict(node=_n("VItemSum"), kind="op", proc="VItemSum", params=[("items", None)], cfg={}, reads=["items"]),
    "nestw": dict(node=_n("VNestWrite"), kind="op", proc="VNestWrite", params=[("nest", None)], cfg={}, reads=["nest"]),
    "badw": dict(node=_n("VBadWrite"), kind="op", proc="VBadWrite", params=[], cfg={}, reads=[]),
    "fail": dict(node=_n("VFail"), kind="op", proc="VFail", params=[], cfg={}, reads=[]),
    "failempty": dict(node=_n("VFailEmpty"), kind="op", proc="VFailEmpty", params=[], cfg={}, reads=[]),
    "failif": dict(node=_n("VFailIf"), kind="op", proc="VFailIf", params=[("a", 0.0)], cfg={}, reads=["a"]),
    "interrupt": dict(node=_n("VInterrupt"), kind="op", proc="VInterrupt", params=[], cfg={}, reads=[]),
    "abort": dict(node=_n("VAbort"), kind="op", proc="VAbort", params=[], cfg={}, reads=[]),
    "sysexit": dict(node=_n("VSysExit"), kind="op", proc="VSysExit", params=[], cfg={}, reads=[]),
    "sum": dict(node=_n("VSum"), kind="op", proc="VSum", **{"in": "C"}, params=[], cfg={}, reads=[]),
    # probes
    "probe_factor": dict(node=_n("VProbe", context_key="factor"), kind="probe", proc="VProbe", ckey="factor", params=[], cfg={}, reads=["factor"]),
    "probe_r": dict(node=_n("VProbe", context_key="r"), kind="probe", proc="VProbe", ckey="r", params=[], cfg={}, reads=["r"]),
    "gainprobe": dict(node=_n("VGainProbe", context_key="gain"), kind="probe", proc="VGainProbe", ckey="gain", params=[("gain", 1.0)], cfg={}, reads=["gain"]),
    "echoprobe": dict(node=_n("VEchoProbe", context_key="e"), kind="probe", proc="VEchoProbe", ckey="e", params=[], cfg={}, reads=[]),
    "kwgainprobe": dict(node=_n("VKwGainProbe", context_key="gain"), kind="probe", proc="VKwGainProbe", ckey="gain", params=[("gain", 1.0)], cfg={}, reads=["gain"]),
    "probe_nokey": dict(node=_n("VProbe"), kind="invalid", error="PipelineConfigurationError", params=[], cfg={}, reads=[]),
    # context processors
    "ren_r_factor": dict(node=_n("rename:r:factor"), kind="ctx", op="rename", src="r", dst="factor", params=[("r", NODEF)], cfg={}, reads=["r", "factor"]),
    "ren_factor_a": dict(node=_n("rename:factor:a"), kind="ctx", op="rename", src="factor", dst="a", params=[("factor", NODEF)], cfg={}, reads=["factor", "a"]),
    "ren_tv_a": dict(node=_n("rename:t_values:a"), kind="ctx", op="rename", src="t_values", dst="a", params=[("t_values", NODEF)], cfg={}, reads=["t_values", "a"]),
    # a rename / delete whose own key is given as a NODE parameter: the value resolves from the configuration, the key is then
    # removed from the context — where it may not be
    "ren_r_factor_cfg": dict(node=_n("rename:r:factor", {"r": 4.5}), kind="ctx", op="rename", src="r", dst="factor", params=[("r", NODEF)], cfg={"r": 4.5}, reads=["r", "factor"]),
    "del_a_cfg": dict(node=_n("delete:a", {"a": 1.0}), kind="ctx", op="delete", src="a", params=[("a", NODEF)], cfg={"a": 1.0}, reads=["a"]),
    "ren_tagsrc": dict(node=_n("rename:tagsrc:tag"), kind="ctx", op="rename", src="tagsrc", dst="tag", params=[("tagsrc", NODEF)], cfg={}, reads=["tagsrc", "tag"]),
    "del_factor": dict(node=_n("delete:factor"), kind="ctx", op="delete", src="factor", params=[("factor", NODEF)], cfg={}, reads=["factor"]),
    "del_a": dict(node=_n("delete:a"), kind="ctx", op="delete", src="a", params=[("a", NODEF)], cfg={}, reads=["a"]),
    "tmpl_a": dict(node=_n('template:"v_{r}":a'), kind="ctx", op="template", tmpl="v_{r}", dst="a", params=[("r", NODEF)], cfg={}, reads=["r", "a"]),
    "tmpl_path": dict(node=_n('template:"o_{a}{b}.txt":path'), kind="ctx", op="template", tmpl="o_{a}{b}.txt", dst="path", params=[("a", NODEF), ("b", NODEF)], cfg={}, reads=["a", "b", "path"]),
    # string edges: dotted context keys (the unquoted template form shown in one documentation example does not resolve: not a symbol)
    "ren_r_dot": dict(node=_n("rename:r:p.q"), kind="ctx", op="rename", src="r", dst="p.q", params=[("r", NODEF)], cfg={}, reads=["r", "p.q"]),
    "del_dot": dict(node=_n("delete:p.q"), kind="ctx", op="delete", src="p.q", params=[("p.q", NODEF)], cfg={}, reads=["p.q"]),
    # create-and-require-in-one-node: reads key a and writes key a
    "tmpl_aa": dict(node=_n('template:"{a}_x":a'), kind="ctx", op="template", tmpl="{a}_x", dst="a", params=[("a", NODEF)], cfg={}, reads=["a"]),
    # slicers
    "slice_mul": dict(node=_n("slice:VMul:FloatDataCollection"), kind="slicer_op", proc="VMul", params=[("factor", NODEF)], cfg={}, reads=["factor"]),
    "slice_muldef": dict(node=_n("slice:VMulDef:FloatDataCollection"), kind="slicer_op", proc="VMulDef", params=[("factor", 2.0)], cfg={}, reads=["factor"]),
    "slice_mul3": dict(node=_n("slice:VMul:FloatDataCollection", {"factor": 3.0}), kind="slicer_op", proc="VMul", params=[("factor", NODEF)], cfg={"factor": 3.0}, reads=["factor"]),
    "slice_kwmul": dict(node=_n("slice:VKwMul:FloatDataCollection"), kind="slicer_op", proc="VKwMul", params=[("factor", NODEF)], cfg={}, reads=["factor"]),
    "slice_probe": dict(node=_n("slice:VProbe:FloatDataCollection", context_key="r"), kind="slicer_probe", proc="VProbe", ckey="r", params=[], cfg={}, reads=["r"]),
    # sweeps (deep coverage lives in C03)
    "sweep_src": dict(node=_sweep("VSrc", {"value": "2.0 * t"}, {"t": {"values": [1.0, 2.0, 3.0]}}, "FloatDataCollection"),
                      kind="sweep_src", proc="VSrc", vars={"t": [1.0, 2.0, 3.0]}, params=[], cfg={}, reads=["t_values"]),
    # a collection beyond the small scope: 40 distinct elements (order must survive every element-wise stage)
    "sweep_src40": dict(node=_sweep("VSrc", {"value": "2.0 * t"}, {"t": {"values": [float(40 - i) + (i % 7) * 0.125 for i in range(40)]}}, "FloatDataCollection"),
                        kind="sweep_src", proc="VSrc", vars={"t": [float(40 - i) + (i % 7) * 0.125 for i in range(40)]}, params=[], cfg={}, reads=["t_values"]),
    "sweep_op": dict(node=_sweep("VMul", {"factor": "t"}, {"t": {"values": [1.0, 2.0]}}, "FloatDataCollection"),
                     kind="sweep_op", proc="VMul", vars={"t": [1.0, 2.0]}, params=[], cfg={}, reads=["t_values"]),
    "sweep_two": dict(node=_sweep("VTwo", {"factor": "t"}, {"t": {"values": [1.0, 2.0]}}, "FloatDataCollection"),
                      kind="sweep_op", proc="VTwo", vars={"t": [1.0, 2.0]}, params=[("addend", 0.5)], cfg={}, reads=["t_values", "addend"]),
    # the SAME element class swept over its other parameter: two generated classes with one name and different parameter lists
    "sweep_two_b": dict(node=_sweep("VTwo", {"addend": "t"}, {"t": {"values": [1.0, 2.0]}}, "FloatDataCollection"),
                        kind="sweep_op", proc="VTwo", swept="addend", vars={"t": [1.0, 2.0]}, params=[("factor", NODEF)], cfg={}, reads=["t_values", "factor"]),
    "sweep_probe": dict(node=_sweep("VFactorProbe", {"factor": "t"}, {"t": {"values": [1.0, 2.0]}}, None, context_key="r"),
                        kind="sweep_probe", proc="VFactorProbe", ckey="r", vars={"t": [1.0, 2.0]}, params=[], cfg={}, reads=["t_values", "r"]),
    # sinks
    "sink_cfg": dict(node=_n("VTxtSink", {"path": "out_cfg.txt"}), kind="sink", proc="VTxtSink", params=[("path", NODEF)], cfg={"path": "out_cfg.txt"}, reads=["path"]),
    "sink_ctx": dict(node=_n("VTxtSink"), kind="sink", proc="VTxtSink", params=[("path", NODEF)], cfg={}, reads=["path"]),
    "sink": dict(node=_n("VSink"), kind="sink", proc="VSink", params=[], cfg={}, reads=[]),
    "paysink": dict(node=_n("VPaySink"), kind="sink", proc="VPaySink", params=[], cfg={}, reads=[]),
    # invalid configuration
    "bogus": dict(node=_n("VAdd", {"addend": 1.0, "bogus": 1}), kind="invalid", error="InvalidNodeParameterError", params=[], cfg={}, reads=[]),
    "unknown": dict(node=_n("VNoSuchProcessor"), kind="invalid", error="UnknownProcessorError", params=[], cfg={}, reads=[]),
}

# ---- value menu at CONFIGURATION positions: every YAML-representable kind of value as a node parameter -------------------
YAML_MENU: Dict[str, Any] = {"int": 5, "true": True, "false": False, "negzero": -0.0, "inf": float("inf"), "neginf": float("-inf"), "nan": float("nan"),
                             "numeric-string": "5.0", "empty-string": "", "list": [1.0], "bigint": 10 ** 20, "null": None, "mapping": {"k": 1.0}}
MENU_SYMBOLS: List[str] = []
for _base, _param in (("src", "value"), ("mul3", "factor"), ("two_cfg", "addend"), ("kwmul3", "factor")):
    for _vn, _v in YAML_MENU.items():
        import copy as _copy

        _sym = _copy.deepcopy(SYMBOLS[_base])
        _sym["node"]["parameters"][_param] = _copy.deepcopy(_v)
        _sym["cfg"][_param] = _copy.deepcopy(_v)
        SYMBOLS[f"{_base}@{_vn}"] = _sym
        MENU_SYMBOLS.append(f"{_base}@{_vn}")
# short programs around each of them
# a node that takes more than a second of wall-clock time (only where durations are judged: its name keeps it out of ALL)
SYMBOLS["sleep@1.15s"] = dict(node=_n("VSleep", {"seconds": 1.15}), kind="op", proc="VSleep", params=[("seconds", 0.0)], cfg={"seconds": 1.15}, reads=[])
SYMBOLS["sleep@2.1s"] = dict(node=_n("VSleep", {"seconds": 2.1}), kind="op", proc="VSleep", params=[("seconds", 0.0)], cfg={"seconds": 2.1}, reads=[])
SLOW_PROGS: List[Tuple[str, ...]] = [("src", "sleep@1.15s", "mul3"), ("src", "mul3", "sleep@2.1s")]
MENU_PROGS: List[Tuple[str, ...]] = [((m,) if m.startswith("src@") else ("src", m)) for m in MENU_SYMBOLS] + \
    [((m, "probe_r") if m.startswith("src@") else ("src", m, "probe_r")) for m in MENU_SYMBOLS]

ALL = [s for s in SYMBOLS if s not in ("interrupt", "abort", "sysexit") and "@" not in s]
# beyond the small scope: a few long pipelines (61, 41 and 33 nodes; every node kind that chains) and a context of 200 keys
LONG_PROGS: List[Tuple[str, ...]] = [
    ("src",) + ("mul3", "probe_r", "ren_r_factor", "mul") * 15,
    ("sweep_src",) + ("slice_muldef", "slice_probe") * 20,
    ("src",) + ("ctxw", "tmpl_a", "del_a", "probe_factor", "muldef", "ren_factor_a", "failif", "del_a") * 4,
    ("sweep_src40", "slice_mul3", "slice_probe", "slice_muldef", "sum", "gainprobe"),
    ("sweep_src40", "slice_kwmul", "slice_probe"),
]
WIDE_CONTEXT: Dict[str, Any] = {f"wide_{i:03d}": (float(i) if i % 3 else f"s{i}") for i in range(200)}  # KeyboardInterrupt-class aborts are exercised by C06 only
# one representative per kind
PRIME = ["src", "srcdef", "paysrc", "mul", "muldef", "two", "ctxw", "fail", "sum", "probe_factor", "gainprobe",
         "ren_r_factor", "del_factor", "tmpl_a", "slice_mul", "sweep_op", "sink_ctx", "bogus"]
# symbols whose failures are deliberate processor errors (removed for C02)
DELIBERATE = {"fail", "failempty", "failif", "badw", "interrupt", "abort", "sysexit"}

DATA_KINDS = ["none", "float", "coll"]


def make_data(kind: str):
    from semantiva.examples.test_utils import FloatDataCollection, FloatDataType

    if kind == "none":
        return None
    if kind == "float":
        return FloatDataType(2.0)
    return FloatDataCollection.from_list([FloatDataType(1.0), FloatDataType(2.0)])


def ref_data(kind: str):
    return ("N",) if kind == "none" else ("F", 2.0) if kind == "float" else ("C", [1.0, 2.0])


def programs(alphabet: Sequence[str], lengths: Iterable[int]) -> List[Tuple[str, ...]]:
    out: List[Tuple[str, ...]] = []
    for n in lengths:
        out.extend(itertools.product(alphabet, repeat=n))
    return out


SPINES: List[Tuple[str, ...]] = [
    ("src", "mul3", "probe_r", "ren_r_factor", "muldef", "ctxw", "tmpl_a", "sink"),
    ("sweep_src", "slice_muldef", "slice_probe", "sum", "gainprobe", "two_cfg", "del_a", "paysink"),
    ("paysrc", "ctxw", "tmpl_path", "sink_ctx", "probe_factor", "mul", "del_factor", "muldef"),
    ("srcdef", "sweep_op", "slice_mul", "sum", "add", "failif", "ren_factor_a", "sink_cfg"),
]


def edits(spine: Tuple[str, ...], alphabet: Sequence[str], k: int) -> List[Tuple[str, ...]]:
    """All programs within <= k edits (substitute / delete / insert-before) of the spine."""
    seen = {spine}
    frontier = [spine]
    for _ in range(k):
        nxt = []
        for p in frontier:
            for i in range(len(p)):
                q = p[:i] + p[i + 1:]
                if q and q not in seen:
                    seen.add(q)
                    nxt.append(q)
                for s in alphabet:
                    q = p[:i] + (s,) + p[i + 1:]
                    if q not in seen:
                        seen.add(q)
                        nxt.append(q)
                    if len(p) < 9:
                        q = p[:i] + (s,) + p[i:]
                        if q not in seen:
                            seen.add(q)
                            nxt.append(q)
        frontier = nxt
    return sorted(seen)


def read_keys(prog: Sequence[str]) -> List[str]:
    ks: List[str] = []
    for s in prog:
        for k in SYMBOLS[s]["reads"]:
            if k not in ks:
                ks.append(k)
    return ks


def contexts_for(prog: Sequence[str], max_keys: int = 4, extra: bool = True) -> List[Dict[str, Any]]:
    """Every subset of the keys the program can read (capped at max_keys keys, earliest first) + one unrelated key."""
    ks = read_keys(prog)[:max_keys]
    out = []
    for r in range(len(ks) + 1):
        for sub in itertools.combinations(ks, r):
            out.append({k: KEY_VALUES.get(k, 0.0625) for k in sub})
    if ks:
        # unusual-but-legal values: every readable key present with a falsy (but not None) value
        out.append({k: FALSY_VALUES.get(k, 0.0) for k in ks})
        if len(ks) > 1:
            out.append({ks[0]: FALSY_VALUES.get(ks[0], 0.0)})
    if extra:
        out.append({"zz": KEY_VALUES["zz"]})
    return out


def yaml_config(prog: Sequence[str], extra: Optional[dict] = None) -> dict:
    import copy

    cfg = {"extensions": ["verif_lib"], "pipeline": {"nodes": [copy.deepcopy(SYMBOLS[s]["node"]) for s in prog]}}
    if extra:
        cfg.update(extra)
    return cfg
